/-
Props/C09b.lean — C09 continued: the Windows re-parse clause, and `ancestors`.

* `win_parent_comps`: for every well-formed Windows path (no prefix-like start, or a complete
  prefix of any of the six kinds) the parent, re-parsed from its own bytes, has exactly the
  original's components without the last one — and is again well-formed;
* `parent_shorter`: the parent is strictly shorter than the path (both encodings, all inputs);
* `ancestors_chain`: `ancestors` is the path followed by its successive parents, ends at the first
  path without a parent, and never runs out of fuel (both encodings, all inputs);
* `win_ancestors_comps` / `unix_ancestors_comps`: every ancestor's components are an initial
  segment of the path's components, each one shorter by exactly one than the previous.
-/
import TypedPathVerif.Lemmas.WinReparse
import TypedPathVerif.Props.C09

namespace TP.C09b

open TP

/-- Windows: the parent's own components are the path's components without the last one, and the
parent is again a well-formed path. -/
theorem win_parent_comps (b q : Bytes) (hwf : Win.WF b) (h : parent .windows b = some q) :
    comps .windows q = (comps .windows b).dropLast ∧ Win.WF q := Win.win_parent_comps b q hwf h

/-- every complete-prefixed and every prefix-free path is covered (non-vacuity of `Win.WF`) -/
example : Win.WF [67, 58, 92, 97, 92, 98] := by
  refine Or.inr ⟨⟨[67, 58], .disk 67⟩, [92, 97, 92, 98], by decide, trivial⟩
example : Win.WF [92, 92, 115, 92, 104, 92, 97] := by
  refine Or.inr ⟨⟨[92, 92, 115, 92, 104], .unc [115] [104]⟩, [92, 97], by decide, by simp [Win.Complete]⟩
example : Win.WF [97, 92, 98] := Or.inl (by decide)
example : parent .windows [92, 92, 115, 92, 104, 92, 97] = some [92, 92, 115, 92, 104, 92] := by decide

/-- the parent is strictly shorter than the path -/
theorem parent_shorter (e : Enc) (b q : Bytes) (h : parent e b = some q) : q.length < b.length := by
  unfold parent at h
  cases hb : (e.new b).nextBack with
  | none => simp [hb] at h
  | some x =>
    obtain ⟨c, s'⟩ := x
    simp only [hb] at h
    split at h
    · rename_i hc
      simp only [Option.some.injEq] at h
      have hrem := new_remaining e b
      have hwf : ∃ f, WFToks f (e.new b).toks := by
        cases e with
        | unix => exact ⟨usep, WFToks_toks usep b⟩
        | windows =>
          simp only [Enc.new]
          split <;> exact ⟨_, WFToks_toks _ _⟩
      obtain ⟨f, hw⟩ := hwf
      unfold PState.nextBack at hb
      split at hb
      · cases hbt : backT (e.new b).k (e.new b).atBeg (e.new b).toks with
        | none => simp [hbt] at hb
        | some y =>
          obtain ⟨c', ts'⟩ := y
          rename_i hne
          simp only [hbt, Option.some.injEq, Prod.mk.injEq] at hb
          obtain ⟨x, hx⟩ := backT_prefix hbt
          have hlen := backT_length hne hbt
          have hxne : x ≠ [] := by
            intro h0; rw [h0, List.append_nil] at hx; rw [hx] at hlen; exact Nat.lt_irrefl _ hlen
          have hux : untoks x ≠ [] := by
            intro h0
            have hwx : WFToks f x := by rw [hx] at hw; exact WFToks_suffix ts' hw
            exact hxne (Comb.Unix.untoks_eq_nil hwx h0)
          have key : b = q ++ untoks x := by
            rw [← hrem, ← h, ← hb.2]
            simp only [PState.remaining, PState.preBytes]
            rw [hx, Comb.untoks_append, List.append_assoc]
          have : 0 < (untoks x).length := List.length_pos_iff.mpr hux
          rw [key, List.length_append]; omega
      · rename_i hnil
        cases hp : (e.new b).pre with
        | none => simp [hp] at hb
        | some p =>
          simp only [hp, Option.some.injEq, Prod.mk.injEq] at hb
          rw [← hb.1] at hc
          simp [Comp.isNormal, Comp.isCur, Comp.isParent] at hc
    · cases h

/-- the list is `b`, then the parent of each element, and stops at an element without parent -/
def IsChain (e : Enc) : List Bytes → Prop
  | [] => False
  | [x] => parent e x = none
  | x :: y :: r => parent e x = some y ∧ IsChain e (y :: r)

theorem ancestorsAux_chain (e : Enc) : ∀ (n : Nat) (b : Bytes), b.length < n →
    IsChain e (ancestorsAux e n b) ∧ (ancestorsAux e n b).head? = some b := by
  intro n
  induction n with
  | zero => intro b h; exact absurd h (Nat.not_lt_zero _)
  | succ n ih =>
    intro b h
    simp only [ancestorsAux]
    cases hp : parent e b with
    | none => exact ⟨hp, rfl⟩
    | some q =>
      have hq := parent_shorter e b q hp
      obtain ⟨h1, h2⟩ := ih q (by omega)
      refine ⟨?_, rfl⟩
      simp only
      cases hl : ancestorsAux e n q with
      | nil => rw [hl] at h2; cases h2
      | cons y r =>
        rw [hl] at h1 h2
        simp only [List.head?_cons, Option.some.injEq] at h2
        subst h2
        exact ⟨hp, h1⟩

/-- **`ancestors` is finite and complete**: it starts with the path, each next element is the
parent of the previous one, and it ends at the first path that has no parent — the fuel
(`len + 1`) never runs out, for every byte string in both encodings. -/
theorem ancestors_chain (e : Enc) (b : Bytes) :
    IsChain e (ancestors e b) ∧ (ancestors e b).head? = some b :=
  ancestorsAux_chain e (b.length + 1) b (Nat.lt_succ_self _)

/-- along a chain that starts at a well-formed Windows path, every element is well-formed and
its components are an initial segment of the first path's components -/
theorem chain_comps_win : ∀ (l : List Bytes) (b : Bytes), IsChain .windows (b :: l) → Win.WF b →
    ∀ q ∈ b :: l, Win.WF q ∧ ∃ k, comps .windows q = (comps .windows b).take k := by
  intro l
  induction l with
  | nil =>
    intro b _ hwf q hq
    simp only [List.mem_singleton] at hq
    subst hq
    exact ⟨hwf, (comps .windows q).length, by simp⟩
  | cons y r ih =>
    intro b hch hwf q hq
    obtain ⟨hp, hrest⟩ := hch
    obtain ⟨hc, hwfy⟩ := win_parent_comps b y hwf hp
    rcases List.mem_cons.mp hq with hq | hq
    · subst hq; exact ⟨hwf, (comps .windows q).length, by simp⟩
    · obtain ⟨hw', k, hk⟩ := ih y hrest hwfy q hq
      refine ⟨hw', min k ((comps .windows b).length - 1), ?_⟩
      rw [hk, hc, List.dropLast_eq_take, List.take_take]

theorem win_ancestors_comps (b : Bytes) (hwf : Win.WF b) :
    ∀ q ∈ ancestors .windows b, Win.WF q ∧ ∃ k, comps .windows q = (comps .windows b).take k := by
  obtain ⟨hch, hhead⟩ := ancestors_chain .windows b
  cases hl : ancestors .windows b with
  | nil => rw [hl] at hhead; cases hhead
  | cons x r =>
    rw [hl] at hch hhead
    simp only [List.head?_cons, Option.some.injEq] at hhead
    subst hhead
    exact chain_comps_win r x hch hwf

theorem chain_comps_unix : ∀ (l : List Bytes) (b : Bytes), IsChain .unix (b :: l) →
    ∀ q ∈ b :: l, ∃ k, comps .unix q = (comps .unix b).take k := by
  intro l
  induction l with
  | nil =>
    intro b _ q hq
    simp only [List.mem_singleton] at hq
    subst hq
    exact ⟨(comps .unix q).length, by simp⟩
  | cons y r ih =>
    intro b hch q hq
    obtain ⟨hp, hrest⟩ := hch
    have hc := C09.unix_parent_comps b y hp
    rcases List.mem_cons.mp hq with hq | hq
    · subst hq; exact ⟨(comps .unix q).length, by simp⟩
    · obtain ⟨k, hk⟩ := ih y hrest q hq
      refine ⟨min k ((comps .unix b).length - 1), ?_⟩
      rw [hk, hc, List.dropLast_eq_take, List.take_take]

theorem unix_ancestors_comps (b : Bytes) :
    ∀ q ∈ ancestors .unix b, ∃ k, comps .unix q = (comps .unix b).take k := by
  obtain ⟨hch, hhead⟩ := ancestors_chain .unix b
  cases hl : ancestors .unix b with
  | nil => rw [hl] at hhead; cases hhead
  | cons x r =>
    rw [hl] at hch hhead
    simp only [List.head?_cons, Option.some.injEq] at hhead
    subst hhead
    exact chain_comps_unix r x hch

example : ancestors .windows [67, 58, 92, 97, 92, 98] = [[67, 58, 92, 97, 92, 98], [67, 58, 92, 97], [67, 58, 92]] := by decide

end TP.C09b
