/-
Props/C02.lean — Windows paths decompose per the documented prefix and separator grammar.

Proved here, for every byte string: at most one prefix, only in first position, its raw text
is the leading bytes (`win_prefix_unique_first`, `win_prefix_raw`); a drive letter is an
upper-case ASCII letter (`win_drive_ascii_upper`); after the prefix the components are exactly
`WinGrammar.bodySpec` — optional root, split on `\` (and `/` unless the path starts with exactly
`\\?\`), `.` kept only at the start of the path unless verbatim, repeated and trailing
separators produce nothing (`win_decomp`); every query is the obvious function of that
decomposition (`win_queries`), with the kind sets taken from the *generated* `matches!` arms.

Not proved: that the byte-level prefix parser (six ordered alternatives with `not(...)` guards,
Model/Enc.lean) classifies kind and payload as the documented prefix grammar does.  The
harness's independent grammar (harness/src/spec.rs `win_prefix`, DESIGN.md A.2) is compared with
the implementation on the near-miss domain on every run.
-/
import TypedPathVerif.Spec.WinGrammar
import TypedPathVerif.Props.C08

namespace TP.C02

open TP WinGrammar StdSpec

/-! ### the body after the prefix -/

theorem body_cons_seg_k (k : Bool) (s : Bytes) (r : List Tok) (hs : s ≠ []) :
    body k (.seg s :: r) = (interiorK k s).toList ++ body k r := by
  by_cases hc : s = CUR
  · subst hc
    cases k with
    | false =>
      rw [body_cons_junk r (by simp [junk])]
      simp [interiorK, CUR]
    | true =>
      rw [body_cons_seg r (by simp [junk])]
      simp [interiorK, segComp, CUR, PAR]
  · rw [body_cons_seg r (by cases k <;> simp [junk, hc])]
    simp [interiorK, hs, hc, segComp, classify]

theorem body_first_k (k : Bool) (ts : List Tok) (hne : ∀ s, Tok.seg s ∈ ts → s ≠ []) :
    body k ts = (interiorK k (firstSeg ts)).toList ++ body k (dropFirstSeg ts) := by
  cases ts with
  | nil => simp [firstSeg, dropFirstSeg, interiorK]
  | cons t r =>
    cases t with
    | sep b => simp [firstSeg, dropFirstSeg, interiorK]
    | seg s =>
      simp only [firstSeg, dropFirstSeg]
      exact body_cons_seg_k k s r (hne s (by simp))

/-- the split view in terms of the token view, for any separator set and `.` rule -/
theorem splitOn_toks_k (isSep : UInt8 → Bool) (k : Bool) (b : Bytes) :
    ∃ rest, splitOn isSep b = firstSeg (toks isSep b) :: rest ∧
      rest.filterMap (interiorK k) = body k (dropFirstSeg (toks isSep b)) := by
  induction b with
  | nil => exact ⟨[], by simp [splitOn, toks, firstSeg], by simp [toks, dropFirstSeg]⟩
  | cons x xs ih =>
    obtain ⟨rest, h1, h2⟩ := ih
    by_cases hx : isSep x = true
    · refine ⟨firstSeg (toks isSep xs) :: rest, by simp [splitOn, toks, hx, firstSeg, h1], ?_⟩
      simp only [toks, hx, if_true, dropFirstSeg, List.filterMap_cons]
      rw [body_cons_junk _ (by rfl), body_first_k k _ (toks_seg_ne_nil isSep xs), ← h2]
      cases interiorK k (firstSeg (toks isSep xs)) <;> simp
    · refine ⟨rest, ?_, ?_⟩
      · simp only [splitOn, hx, Bool.false_eq_true, if_false, h1, toks]
        split <;> simp_all [firstSeg]
      · simp only [toks, hx, Bool.false_eq_true, if_false]
        split
        · rename_i s r hr
          rw [hr] at h2
          simpa [dropFirstSeg] using h2
        · rename_i hns
          rw [h2]
          cases hts : toks isSep xs with
          | nil => simp [dropFirstSeg]
          | cons t r =>
            cases t with
            | sep b' => simp [dropFirstSeg]
            | seg s => exact absurd hts (hns s r)

/-- forward components of a token list at the beginning of the path = the split-based spec -/
theorem compsT_eq_bodySpec (isSep : UInt8 → Bool) (k : Bool) (rest : Bytes) :
    compsT k true (toks isSep rest) = bodySpec isSep k rest := by
  obtain ⟨more, h1, h2⟩ := splitOn_toks_k isSep k rest
  unfold bodySpec
  rw [h1]
  simp only
  cases rest with
  | nil => simp [toks, firstSeg, StdSpec.first] at *; simpa [toks, dropFirstSeg] using h2
  | cons x xs =>
    by_cases hx : isSep x = true
    · simp only [toks, hx, if_true, firstSeg, dropFirstSeg] at h2 ⊢
      rw [compsT_true_cons, h2, body_cons_junk _ (by rfl)]
      simp [headComp, StdSpec.first]
    · have hne := toks_seg_ne_nil isSep (x :: xs)
      have hxf : isSep x = false := by simpa using hx
      cases hts : toks isSep (x :: xs) with
      | nil => simp [toks, hx] at hts; split at hts <;> cases hts
      | cons t r =>
        cases t with
        | sep y =>
          simp only [toks, hx, Bool.false_eq_true, if_false] at hts
          split at hts <;> cases hts
        | seg s =>
          rw [hts] at h2 hne
          simp only [firstSeg, dropFirstSeg] at h2 ⊢
          have hs : s ≠ [] := hne s (by simp)
          rw [compsT_true_cons, h2]
          simp only [hxf, Bool.false_eq_true, if_false, List.nil_append, headComp, StdSpec.first, hs]
          by_cases hc : s = CUR
          · simp [hc, segComp, CUR, PAR]
          · simp [hc, segComp, StdSpec.classify]

/-- **The decomposition**: the components of every byte string read as a Windows path are the
parsed prefix (if any) followed by `bodySpec` of the remaining bytes. -/
theorem win_decomp (b : Bytes) : comps .windows b = decomp b := by
  rw [C03.comps_new_closed]
  unfold decomp sepSet verb
  rcases C08.new_windows_cases b with ⟨h1, h2⟩ | ⟨p, rest, h1, _, h2⟩
  · rw [h2, h1]
    simp only [List.nil_append, Bool.not_not]
    exact compsT_eq_bodySpec _ _ b
  · rw [h2, h1]
    simp only [List.singleton_append, Bool.not_not]
    rw [compsT_eq_bodySpec]

/-! ### prefix: unique, first, raw text, drive letter -/

theorem bodySpec_no_pfx (isSep : UInt8 → Bool) (k : Bool) (rest : Bytes) :
    ∀ c ∈ bodySpec isSep k rest, c.isPfx = false := by
  rw [← compsT_eq_bodySpec]
  intro c hc
  cases hts : toks isSep rest with
  | nil => rw [hts] at hc; simp at hc
  | cons t r =>
    rw [hts, compsT_true_cons] at hc
    rcases List.mem_cons.mp hc with h | h
    · rw [h]
      have := C08.headComp_not_pfx t
      cases hh : headComp t with
      | pfx p => exact absurd hh (this p)
      | _ => rfl
    · -- body components are `..`, `.` or names
      have : ∀ (ts : List Tok), ∀ c ∈ body k ts, c.isPfx = false := by
        intro ts
        induction ts with
        | nil => intro c h; simp at h
        | cons t' r' ih =>
          intro c h
          cases t' with
          | sep x => rw [body_cons_junk r' (by rfl)] at h; exact ih c h
          | seg s =>
            by_cases hj : junk k (.seg s) = true
            · rw [body_cons_junk r' hj] at h; exact ih c h
            · rw [body_cons_seg r' (by simpa using hj)] at h
              rcases List.mem_cons.mp h with h | h
              · rw [h]; unfold segComp; split <;> (try split) <;> rfl
              · exact ih c h
      exact this r c h

/-- At most one prefix, and only in first position. -/
theorem win_prefix_unique_first (b : Bytes) :
    ∀ c ∈ (comps .windows b).tail, c.isPfx = false := by
  rw [win_decomp]
  unfold decomp
  cases parsePrefixComp b with
  | none =>
    intro c hc
    exact bodySpec_no_pfx _ _ b c (List.mem_of_mem_tail hc)
  | some x =>
    obtain ⟨p, rest⟩ := x
    simp only [List.tail_cons]
    exact bodySpec_no_pfx _ _ rest

/-- The prefix's raw text is the leading bytes of the input, and `prefix_len` is its length. -/
theorem win_prefix_raw (b : Bytes) (p : PrefixComp) (h : wPrefix b = some p) :
    (∃ rest, p.raw ++ rest = b) ∧ wPrefixLen b = p.raw.length := by
  rw [C08.wPrefix_eq] at h
  refine ⟨C08.prefixOf_some h, ?_⟩
  rw [C08.wPrefixLen_eq]
  unfold JoinRules.rawPrefix
  rw [h]

theorem diskByte_upper {b r : Bytes} {d : UInt8} (h : diskByte b = some (d, r)) : 65 ≤ d ∧ d ≤ 90 := by
  match b, h with
  | x :: c :: rest, h =>
    simp only [diskByte] at h
    split at h
    · rename_i hx
      simp only [Option.some.injEq, Prod.mk.injEq] at h
      rw [← h.1]
      simp only [isAsciiAlpha, Bool.and_eq_true, Bool.or_eq_true, decide_eq_true_eq] at hx
      unfold toAsciiUpper
      rcases hx.1 with ⟨h1, h2⟩ | ⟨h1, h2⟩
      · have : ¬ (97 ≤ x ∧ x ≤ 122) := by
          intro ⟨h3, _⟩
          have : (97 : UInt8) ≤ 90 := UInt8.le_trans h3 h2
          exact absurd this (by decide)
        simp only [Bool.and_eq_true, decide_eq_true_eq, this, if_false]
        exact ⟨h1, h2⟩
      · simp only [Bool.and_eq_true, decide_eq_true_eq, h1, h2, and_self, if_true]
        rw [UInt8.le_iff_toNat_le, UInt8.le_iff_toNat_le] at *
        have e : (x - 32).toNat = x.toNat - 32 := by
          rw [UInt8.toNat_sub_of_le]
          · rfl
          · rw [UInt8.le_iff_toNat_le]; simp at h1 ⊢; omega
        simp at h1 h2
        rw [e]
        simp
        omega
    · cases h

theorem kind_verbatimUNC {b r : Bytes} {k : WPrefix} (h : prefixVerbatimUNC b = some (k, r)) : k.tag = 1 := by
  unfold prefixVerbatimUNC at h
  simp only at h
  cases h1 : verbatimHdr b with
  | none => simp [h1] at h
  | some r1 =>
    simp only [h1] at h
    cases h2 : takeUNC r1 with
    | none => simp [h2] at h
    | some r2 =>
      simp only [h2] at h
      cases h3 : takeSep (!startsWith b VERB) r2 with
      | none => simp [h3] at h
      | some r3 =>
        simp only [h3] at h
        cases h4 : serverShare (!startsWith b VERB) r3 with
        | none => simp [h4] at h
        | some x =>
          obtain ⟨sv, sh, r4⟩ := x
          simp only [h4, Option.some.injEq, Prod.mk.injEq] at h
          rw [← h.1]; rfl

theorem kind_verbatimDisk {b r : Bytes} {k : WPrefix} (h : prefixVerbatimDisk b = some (k, r)) :
    ∃ d r1 r2, k = .verbatimDisk d ∧ diskByte r1 = some (d, r2) := by
  unfold prefixVerbatimDisk at h
  cases h1 : verbatimHdr b with
  | none => simp [h1] at h
  | some r1 =>
    simp only [h1] at h
    cases h2 : diskByte r1 with
    | none => simp [h2] at h
    | some x =>
      obtain ⟨d, r2⟩ := x
      simp only [h2, Option.some.injEq, Prod.mk.injEq] at h
      exact ⟨d, r1, r2, h.1.symm, h2⟩

theorem kind_verbatim {b r : Bytes} {k : WPrefix} (h : prefixVerbatim b = some (k, r)) : k.tag = 0 := by
  unfold prefixVerbatim at h
  split at h
  · cases h
  · split at h
    · cases h
    · simp only at h
      cases h1 : verbatimHdr b with
      | none => simp [h1] at h
      | some r1 =>
        simp only [h1] at h
        cases h2 : takeNormal (!startsWith b VERB) r1 with
        | some x =>
          obtain ⟨name, r2⟩ := x
          simp only [h2, Option.some.injEq, Prod.mk.injEq] at h
          rw [← h.1]; rfl
        | none =>
          simp only [h2] at h
          cases h3 : takeSep (!startsWith b VERB) r1 with
          | none => simp [h3] at h
          | some r3 =>
            simp only [h3, Option.some.injEq, Prod.mk.injEq] at h
            rw [← h.1]; rfl

theorem kind_deviceNS {b r : Bytes} {k : WPrefix} (h : prefixDeviceNS b = some (k, r)) : k.tag = 3 := by
  match b, h with
  | a :: b' :: d :: c :: rest, h =>
    simp only [prefixDeviceNS] at h
    split at h
    · cases h2 : takeNormal true rest with
      | none => simp [h2] at h
      | some x =>
        obtain ⟨dev, r2⟩ := x
        simp only [h2, Option.some.injEq, Prod.mk.injEq] at h
        rw [← h.1]; rfl
    · cases h

theorem kind_unc {b r : Bytes} {k : WPrefix} (h : prefixUNC b = some (k, r)) : k.tag = 4 := by
  match b, h with
  | a :: b' :: rest, h =>
    simp only [prefixUNC] at h
    split at h
    · cases h2 : serverShare true rest with
      | none => simp [h2] at h
      | some x =>
        obtain ⟨sv, sh, r2⟩ := x
        simp only [h2, Option.some.injEq, Prod.mk.injEq] at h
        rw [← h.1]; rfl
    · cases h

theorem kind_disk {b r : Bytes} {k : WPrefix} (h : prefixDisk b = some (k, r)) :
    ∃ d r2, k = .disk d ∧ diskByte b = some (d, r2) := by
  unfold prefixDisk at h
  cases h2 : diskByte b with
  | none => simp [h2] at h
  | some x =>
    obtain ⟨d, r2⟩ := x
    simp only [h2, Option.some.injEq, Prod.mk.injEq] at h
    exact ⟨d, r2, h.1.symm, rfl⟩

/-- A disk or verbatim-disk prefix carries an upper-case ASCII drive letter. -/
theorem win_drive_ascii_upper (b : Bytes) (k : WPrefix) (rest : Bytes) (h : parsePrefix b = some (k, rest)) :
    ∀ d, (k = .disk d ∨ k = .verbatimDisk d) → 65 ≤ d ∧ d ≤ 90 := by
  intro d hd
  have htag : k.tag = 5 ∨ k.tag = 2 := by
    rcases hd with hd | hd <;> (rw [hd]; simp [WPrefix.tag])
  unfold parsePrefix at h
  cases h1 : prefixVerbatimUNC b with
  | some x =>
    simp only [h1, Option.orElse_some, Option.some.injEq] at h
    subst h
    have := kind_verbatimUNC h1
    rcases htag with h' | h' <;> omega
  | none =>
    simp only [h1, Option.orElse_none] at h
    cases h2 : prefixVerbatimDisk b with
    | some x =>
      simp only [h2, Option.orElse_some, Option.some.injEq] at h
      subst h
      obtain ⟨d', r1, r2, hk, hdb⟩ := kind_verbatimDisk h2
      rcases hd with hd | hd
      · rw [hd] at hk; cases hk
      · rw [hd] at hk
        have : d = d' := by injection hk
        rw [this]; exact diskByte_upper hdb
    | none =>
      simp only [h2, Option.orElse_none] at h
      cases h3 : prefixVerbatim b with
      | some x =>
        simp only [h3, Option.orElse_some, Option.some.injEq] at h
        subst h
        have := kind_verbatim h3
        rcases htag with h' | h' <;> omega
      | none =>
        simp only [h3, Option.orElse_none] at h
        cases h4 : prefixDeviceNS b with
        | some x =>
          simp only [h4, Option.orElse_some, Option.some.injEq] at h
          subst h
          have := kind_deviceNS h4
          rcases htag with h' | h' <;> omega
        | none =>
          simp only [h4, Option.orElse_none] at h
          cases h5 : prefixUNC b with
          | some x =>
            simp only [h5, Option.orElse_some, Option.some.injEq] at h
            subst h
            have := kind_unc h5
            rcases htag with h' | h' <;> omega
          | none =>
            simp only [h5, Option.orElse_none] at h
            obtain ⟨d', r2, hk, hdb⟩ := kind_disk h
            rcases hd with hd | hd
            · rw [hd] at hk
              have : d = d' := by injection hk
              rw [this]; exact diskByte_upper hdb
            · rw [hd] at hk; cases hk

/-! ### queries -/

/-- the kind sets the prefix-kind queries test, as extracted from the `matches!` arms of the
source, are the documented ones (byte and UTF-8 copies) -/
theorem kind_sets_eq :
    Generated.anyVerbatimTags = [0, 1, 2] ∧ Generated.anyVerbatimTagsUtf8 = [0, 1, 2] ∧
    Generated.isVerbatimTags = [0, 1, 2] ∧ Generated.isVerbatimTagsUtf8 = [0, 1, 2] ∧
    Generated.verbatimTags = [0] ∧ Generated.verbatimUNCTags = [1] ∧ Generated.verbatimDiskTags = [2] ∧
    Generated.deviceNSTags = [3] ∧ Generated.uncTags = [4] ∧ Generated.diskTags = [5] ∧
    Generated.verbatimTagsUtf8 = [0] ∧ Generated.verbatimUNCTagsUtf8 = [1] ∧
    Generated.verbatimDiskTagsUtf8 = [2] ∧ Generated.deviceNSTagsUtf8 = [3] ∧ Generated.uncTagsUtf8 = [4] ∧
    Generated.diskTagsUtf8 = [5] ∧
    Generated.prefixEnumOrder = [0, 1, 2, 3, 4, 5] ∧ Generated.prefixEnumOrderUtf8 = [0, 1, 2, 3, 4, 5] := by
  decide

/-- queries as functions of the component list -/
def physRootOf : List Comp → Bool
  | .root :: _ => true
  | .pfx _ :: .root :: _ => true
  | _ => false

def absoluteOf : List Comp → Bool
  | .pfx _ :: .root :: _ => true
  | _ => false

def hasRootOf : List Comp → Bool
  | .root :: _ => true
  | .pfx p :: rest =>
    (match p.kind with
     | .disk _ | .verbatimDisk _ => (match rest with | .root :: _ => true | _ => false)
     | _ => true)
  | _ => false

def implicitRootOf : List Comp → Bool
  | .pfx p :: _ => (match p.kind with | .disk _ => false | _ => true)
  | _ => false

theorem wHasPhysicalRoot_eq (b : Bytes) : wHasPhysicalRoot b = physRootOf (decomp b) := by
  rw [← win_decomp]
  unfold wHasPhysicalRoot comps
  have hi := Enc.new_inv .windows b
  cases hf : (Enc.new .windows b).nextFront with
  | none => rw [comps_of_front_none hf]; rfl
  | some r =>
    obtain ⟨c, st⟩ := r
    rw [front_comps hf]
    cases c with
    | pfx p =>
      simp only
      cases hf2 : st.nextFront with
      | none => rw [comps_of_front_none hf2]; rfl
      | some r2 =>
        obtain ⟨c2, st2⟩ := r2
        rw [front_comps hf2]
        cases c2 <;> rfl
    | _ => rfl

theorem isAbsolute_eq (b : Bytes) : isAbsolute .windows b = absoluteOf (decomp b) := by
  rw [← win_decomp]
  simp only [isAbsolute, comps]
  cases hf : (Enc.new .windows b).nextFront with
  | none => rw [comps_of_front_none hf]; rfl
  | some r =>
    obtain ⟨c, st⟩ := r
    rw [front_comps hf]
    cases c with
    | pfx p =>
      simp only
      cases hf2 : st.nextFront with
      | none => rw [comps_of_front_none hf2]; rfl
      | some r2 =>
        obtain ⟨c2, st2⟩ := r2
        rw [front_comps hf2]
        cases c2 <;> rfl
    | _ => rfl

theorem hasRoot_eq (b : Bytes) : hasRoot .windows b = hasRootOf (decomp b) := by
  rw [← win_decomp]
  simp only [hasRoot, comps]
  cases hf : (Enc.new .windows b).nextFront with
  | none => rw [comps_of_front_none hf]; rfl
  | some r =>
    obtain ⟨c, st⟩ := r
    rw [front_comps hf]
    cases c with
    | pfx p =>
      simp only [hasRootOf]
      cases hk : p.kind with
      | disk d =>
        simp only
        cases hf2 : st.nextFront with
        | none => rw [comps_of_front_none hf2]
        | some r2 =>
          obtain ⟨c2, st2⟩ := r2
          rw [front_comps hf2]
          cases c2 <;> rfl
      | verbatimDisk d =>
        simp only
        cases hf2 : st.nextFront with
        | none => rw [comps_of_front_none hf2]
        | some r2 =>
          obtain ⟨c2, st2⟩ := r2
          rw [front_comps hf2]
          cases c2 <;> rfl
      | _ => rfl
    | _ => rfl

theorem wHasImplicitRoot_eq (b : Bytes) : wHasImplicitRoot b = implicitRootOf (decomp b) := by
  unfold wHasImplicitRoot wPrefixKind
  rw [C08.wPrefix_eq]
  unfold decomp JoinRules.prefixOf
  cases parsePrefixComp b with
  | none =>
    simp only [Option.map_none]
    have := bodySpec_no_pfx (sepSet b) (verb b) b
    cases hb : bodySpec (sepSet b) (verb b) b with
    | nil => rfl
    | cons c r =>
      have hc := this c (by rw [hb]; simp)
      cases c <;> simp_all [implicitRootOf, Comp.isPfx]
  | some x =>
    obtain ⟨p, rest⟩ := x
    simp only [Option.map_some, implicitRootOf]
    cases p.kind <;> rfl

/-- Every query is the obvious function of the decomposition: prefix / has_prefix /
has_any_verbatim_prefix (exactly the three verbatim kinds) in terms of the parsed prefix, and
physical root, implicit root, root and absoluteness in terms of the component list. -/
theorem win_queries (b : Bytes) :
    wPrefix b = JoinRules.prefixOf b ∧
    wHasPrefix b = (JoinRules.prefixOf b).isSome ∧
    wHasAnyVerbatimPrefix b = JoinRules.baseIsVerbatim b ∧
    wHasImplicitRoot b = implicitRootOf (decomp b) ∧
    wHasPhysicalRoot b = physRootOf (decomp b) ∧
    isAbsolute .windows b = absoluteOf (decomp b) ∧
    hasRoot .windows b = hasRootOf (decomp b) :=
  ⟨C08.wPrefix_eq b, C08.wHasPrefix_eq b, C08.wHasAnyVerbatim_eq b, wHasImplicitRoot_eq b,
    wHasPhysicalRoot_eq b, isAbsolute_eq b, hasRoot_eq b⟩

/-! ### Non-vacuity -/

example : decomp [67, 58, 92, 97, 47, 46, 47, 98] =
    [.pfx ⟨[67, 58], .disk 67⟩, .root, .normal [97], .normal [98]] := by decide
example : decomp [92, 92, 63, 92, 67, 58, 92, 97, 92, 46, 92, 98, 47, 99] =
    [.pfx ⟨[92, 92, 63, 92, 67, 58], .verbatimDisk 67⟩, .root, .normal [97], .cur, .normal [98, 47, 99]] := by decide
example : decomp [46, 92, 46, 92, 97] = [.cur, .normal [97]] := by decide

end TP.C02
