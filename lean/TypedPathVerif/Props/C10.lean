/-
Props/C10.lean — Prefix and suffix relations are consistent with equality and joining.

Unix in full.  Windows: `starts_with` / `ends_with` / `strip_prefix` compare a prefix component
by its *spelling* (known finding K2, `win_starts_with_K2_witness`) and a remainder that begins
with two separators re-parses as a UNC prefix (K3); both are false as stated and are decided by
the oracle with narrow class predicates.
-/
import TypedPathVerif.Props.C11

namespace TP.C10

open TP

/-- `starts_with` holds exactly when the base's components are a leading run of the path's. -/
theorem unix_starts_with_iff (p q : Bytes) :
    startsWithP .unix p q = true ↔ comps .unix q <+: comps .unix p := by
  rw [C06.unix_starts_with_vs_std, C01.unix_front_all, C01.unix_front_all]

/-- in particular whenever the two paths are equal -/
theorem unix_starts_with_of_eq (p q : Bytes) (h : pathEq .unix p q = true) : startsWithP .unix p q = true := by
  rw [unix_starts_with_iff]
  have := (C06.unix_eq_vs_std p q).mp h
  rw [← C01.unix_front_all, ← C01.unix_front_all] at this
  rw [this]
  exact List.prefix_refl _

/-- `ends_with` is the mirror image on trailing runs. -/
theorem unix_ends_with_iff (p q : Bytes) :
    endsWithP .unix p q = true ↔ comps .unix q <:+ comps .unix p := by
  rw [C06.unix_ends_with_vs_std, C01.unix_front_all, C01.unix_front_all]

/-- `strip_prefix` succeeds exactly when `starts_with` holds. -/
theorem unix_strip_iff_starts (p q : Bytes) :
    (stripPrefix .unix p q).isSome = startsWithP .unix p q := by
  unfold stripPrefix startsWithP
  cases iterAfter .unix (Enc.new .unix p) (comps .unix q) <;> rfl

/-- the state `iter_after` returns holds the path's components after the base's -/
theorem iterAfter_comps : ∀ (ys : List Comp) (s s' : PState), s.Inv → C01.UReach s →
    iterAfter .unix s ys = some s' → C01.UReach s' ∧ ∃ xs, xs.length = ys.length ∧ s.comps = xs ++ s'.comps := by
  intro ys
  induction ys with
  | nil =>
    intro s s' _ hr h
    simp only [iterAfter, Option.some.injEq] at h
    subst h
    exact ⟨hr, [], rfl, rfl⟩
  | cons y ys ih =>
    intro s s' hi hr h
    simp only [iterAfter] at h
    cases hf : s.nextFront with
    | none => simp [hf] at h
    | some r =>
      obtain ⟨x, s1⟩ := r
      simp only [hf] at h
      split at h
      · obtain ⟨hr', xs, hlen, hxs⟩ := ih s1 s' (nextFront_inv hf hi) (C01.UReach_front hf hr) h
        refine ⟨hr', x :: xs, by simp [hlen], ?_⟩
        rw [front_comps hf, hxs]; rfl
      · cases h

/-- The remainder's components are exactly the path's components after the base's. -/
theorem unix_strip_comps (p q r : Bytes) (h : stripPrefix .unix p q = some r) :
    comps .unix p = comps .unix q ++ comps .unix r := by
  have hstarts : comps .unix q <+: comps .unix p := by
    rw [← unix_starts_with_iff, ← unix_strip_iff_starts, h]; rfl
  unfold stripPrefix at h
  cases hia : iterAfter .unix (Enc.new .unix p) (comps .unix q) with
  | none => simp [hia] at h
  | some s' =>
    simp only [hia, Option.map_some, Option.some.injEq] at h
    obtain ⟨hr', xs, hlen, hxs⟩ := iterAfter_comps _ _ _ (Enc.new_inv .unix p) (C01.UReach_new p) hia
    have hre := C01.unix_reparse hr'
    rw [h] at hre
    obtain ⟨t, ht⟩ := hstarts
    have hp : comps .unix p = xs ++ s'.comps := hxs
    rw [hre]
    -- both decompositions split `comps p` at the same length
    have : xs = comps .unix q := by
      have h1 : xs ++ s'.comps = comps .unix q ++ t := by rw [← hp, ht]
      exact (List.append_inj h1 hlen).1
    rw [hp, this]

theorem comps_ne_nil_of_ne_nil (q : Bytes) (h : q ≠ []) : comps .unix q ≠ [] := by
  rw [unix_comps_eq]
  have : toks usep q ≠ [] := by rw [ne_eq, toks_eq_nil_iff]; exact h
  cases hts : toks usep q with
  | nil => exact absurd hts this
  | cons t r => rw [compsT_true_cons]; simp

theorem comps_nil : comps .unix [] = [] := by rw [unix_comps_eq]; rfl

/-- `strip_prefix` returns a remainder `r` such that the base joined with `r` equals the path. -/
theorem unix_strip_join (p q r : Bytes) (h : stripPrefix .unix p q = some r) :
    pathEq .unix (push .unix q r) p = true := by
  have hc := unix_strip_comps p q r h
  rw [C05.eq_iff_comps]
  congr 1
  by_cases hr : r = []
  · subst hr
    rw [comps_nil, List.append_nil] at hc
    simp [push, unixPush, hc]
  · by_cases hq : q = []
    · subst hq
      rw [comps_nil, List.nil_append] at hc
      have : push .unix [] r = r := by
        simp only [push, unixPush, hr, if_false]
        split <;> simp
      rw [this, hc]
    · -- the remainder follows at least one component: it is relative and does not start with `.`
      have hqne := comps_ne_nil_of_ne_nil q hq
      have htail : ∀ x ∈ comps .unix r, C11.tailOK x := by
        rcases C11.comps_structure p with h0 | ⟨c, rest, h0, _, hrest⟩
        · rw [h0] at hc
          have := congrArg List.length hc
          simp only [List.length_nil, List.length_append] at this
          exact absurd (List.eq_nil_of_length_eq_zero (by omega)) hqne
        · intro x hx
          rw [h0] at hc
          cases hcq : comps .unix q with
          | nil => exact absurd hcq hqne
          | cons c' q' =>
            rw [hcq] at hc
            simp only [List.cons_append, List.cons.injEq] at hc
            exact hrest x (by rw [hc.2]; simp [hx])
      have hrel : isAbsolute .unix r = false := by
        cases habs : isAbsolute .unix r with
        | false => rfl
        | true =>
          obtain ⟨rr, hrr⟩ := (unix_isAbsolute_iff r).mp habs
          have hroot : Comp.root ∈ comps .unix r := by
            rw [unix_comps_eq, hrr, compsT_true_cons]; simp [headComp]
          rcases htail _ hroot with h' | ⟨s, h', _⟩ <;> cases h'
      have hdl : dropLeadingCur (comps .unix r) = comps .unix r := by
        cases hcr : comps .unix r with
        | nil => rfl
        | cons c rest =>
          have := htail c (by rw [hcr]; simp)
          cases c with
          | cur => rcases this with h' | ⟨s, h', _⟩ <;> cases h'
          | _ => rfl
      rw [show push .unix q r = unixPush q r from rfl, unix_push_comps q r hr hrel hq, hdl, hc]

/-- For a relative `b` and a non-empty `a`: `a` joined with `b` starts with `a`, and stripping
`a` from it yields `b`'s components minus a leading `.` (which no longer starts the path). -/
theorem unix_join_starts_strip (a b : Bytes) (ha : a ≠ []) (hb : b ≠ []) (hrel : isAbsolute .unix b = false) :
    startsWithP .unix (push .unix a b) a = true ∧
    ∃ r, stripPrefix .unix (push .unix a b) a = some r ∧ comps .unix r = dropLeadingCur (comps .unix b) := by
  have hj : comps .unix (push .unix a b) = comps .unix a ++ dropLeadingCur (comps .unix b) :=
    unix_push_comps a b hb hrel ha
  have hs : startsWithP .unix (push .unix a b) a = true := by
    rw [unix_starts_with_iff, hj]; exact List.prefix_append _ _
  refine ⟨hs, ?_⟩
  have hsome : (stripPrefix .unix (push .unix a b) a).isSome = true := by rw [unix_strip_iff_starts, hs]
  cases hst : stripPrefix .unix (push .unix a b) a with
  | none => rw [hst] at hsome; cases hsome
  | some r =>
    refine ⟨r, rfl, ?_⟩
    have := unix_strip_comps _ _ _ hst
    rw [hj] at this
    exact (List.append_cancel_left this).symm

/-- onto the empty base the join is `b` itself -/
theorem unix_join_empty_base (b : Bytes) (hb : b ≠ []) : push .unix [] b = b := by
  simp only [push, unixPush, hb, if_false]
  split <;> simp

/-! ### known finding K2 (Windows) -/

/-- K2 witness: `c:\a` and `C:\a` are equal, yet `c:\a` does not start with `C:\` — the
prefix component is compared by its spelling. -/
theorem win_starts_with_K2_witness :
    pathEq .windows [99, 58, 92, 97] [67, 58, 92, 97] = true ∧
    startsWithP .windows [99, 58, 92, 97] [67, 58, 92] = false ∧
    startsWithP .windows [67, 58, 92, 97] [67, 58, 92] = true := by
  refine ⟨?_, ?_, ?_⟩
  · unfold pathEq; rw [C03.comps_new_closed, C03.comps_new_closed]; decide
  · unfold startsWithP; rw [C03.comps_new_closed]; decide
  · unfold startsWithP; rw [C03.comps_new_closed]; decide

/-! ### Non-vacuity -/

example : stripPrefix .unix [47, 97, 47, 46, 47, 98, 47, 47, 99] [47, 97, 47, 98] = some [99] := by
  unfold stripPrefix; rw [C03.comps_new_closed]; decide
example : startsWithP .unix [47, 97, 47, 98] [47, 98] = false := by
  unfold startsWithP; rw [C03.comps_new_closed]; decide

end TP.C10
