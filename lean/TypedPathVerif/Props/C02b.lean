/-
Props/C02b.lean — characterisation of the Windows prefix classification (C02, continued).

For the byte-level prefix parser of Model/Enc.lean (six ordered alternatives, `not(...)` guards):

* `disk_iff`, `verbatim_disk_iff`, `device_ns_iff`: exact, declarative conditions (header bytes,
  payload, what follows) under which each of these three kinds is produced;
* `kind_header`: for every kind, the header the input must carry (verbatim kinds: two
  separators, `?`, a separator; device namespace: two separators, `.`, a separator; UNC: two
  separators; disk: an ASCII letter and `:`);
* `prefixVerbatim_guards_redundant`: the two `not(...)` guards of `prefix_verbatim` never fire in
  the position where `prefix` calls it;
* `payload_sep_free`: server / share / name / device payloads contain no separator of the set
  in force and (except share and the blank verbatim name) are non-empty.

Not characterised exactly: when the UNC, verbatim and verbatim-UNC kinds are produced (the
fall-through corners `\\?\` alone, `\\?\UNC\` without a server, `\\.\` without a device); for
those the harness's independent grammar is the reference.
-/
import TypedPathVerif.Props.C02

namespace TP.C02b

open TP

theorem anySep_not_alpha (d : UInt8) (h : isAsciiAlpha d = true) : anySep d = false := by
  cases hs : anySep d with
  | false => rfl
  | true =>
    simp only [anySep, wsep, Bool.true_and, Bool.or_eq_true, decide_eq_true_eq] at hs
    rcases hs with hs | hs <;> (subst hs; revert h; decide)

theorem verbatimHdr_none_of_not_sep {b : Bytes} (h : match b with | x :: _ => anySep x = false | [] => True) :
    verbatimHdr b = none := by
  match b, h with
  | [], _ => rfl
  | [_], _ => rfl
  | [_, _], _ => rfl
  | [_, _, _], _ => rfl
  | a :: c :: q :: d :: rest, h =>
    simp only at h
    simp [verbatimHdr, h]

/-- A disk prefix is produced exactly for an ASCII letter followed by `:`; the payload is the
upper-cased letter and the prefix text is those two bytes. -/
theorem disk_iff (b rest : Bytes) (D : UInt8) :
    parsePrefix b = some (.disk D, rest) ↔
      ∃ d, b = d :: COLON :: rest ∧ isAsciiAlpha d = true ∧ D = toAsciiUpper d := by
  constructor
  · intro h
    -- only the last alternative produces the kind `disk`
    have hk := h
    unfold parsePrefix at h
    cases h1 : prefixVerbatimUNC b with
    | some x =>
      simp only [h1, Option.orElse_some, Option.some.injEq] at h; subst h
      have := C02.kind_verbatimUNC h1; simp [WPrefix.tag] at this
    | none =>
      simp only [h1, Option.orElse_none] at h
      cases h2 : prefixVerbatimDisk b with
      | some x =>
        simp only [h2, Option.orElse_some, Option.some.injEq] at h; subst h
        obtain ⟨d', _, _, hk', _⟩ := C02.kind_verbatimDisk h2; cases hk'
      | none =>
        simp only [h2, Option.orElse_none] at h
        cases h3 : prefixVerbatim b with
        | some x =>
          simp only [h3, Option.orElse_some, Option.some.injEq] at h; subst h
          have := C02.kind_verbatim h3; simp [WPrefix.tag] at this
        | none =>
          simp only [h3, Option.orElse_none] at h
          cases h4 : prefixDeviceNS b with
          | some x =>
            simp only [h4, Option.orElse_some, Option.some.injEq] at h; subst h
            have := C02.kind_deviceNS h4; simp [WPrefix.tag] at this
          | none =>
            simp only [h4, Option.orElse_none] at h
            cases h5 : prefixUNC b with
            | some x =>
              simp only [h5, Option.orElse_some, Option.some.injEq] at h; subst h
              have := C02.kind_unc h5; simp [WPrefix.tag] at this
            | none =>
              simp only [h5, Option.orElse_none] at h
              unfold prefixDisk at h
              cases hd : diskByte b with
              | none => simp [hd] at h
              | some y =>
                obtain ⟨d', r2⟩ := y
                simp only [hd, Option.some.injEq, Prod.mk.injEq, WPrefix.disk.injEq] at h
                match b, hd with
                | x :: c :: rr, hd =>
                  simp only [diskByte] at hd
                  split at hd
                  · rename_i hx
                    simp only [Bool.and_eq_true, decide_eq_true_eq] at hx
                    simp only [Option.some.injEq, Prod.mk.injEq] at hd
                    refine ⟨x, ?_, hx.1, ?_⟩
                    · rw [hx.2, hd.2, h.2]
                    · rw [← h.1, ← hd.1]
                  · cases hd
  · intro ⟨d, hb, hd, hD⟩
    subst hb
    have hns : anySep d = false := anySep_not_alpha d hd
    have hv : verbatimHdr (d :: COLON :: rest) = none := verbatimHdr_none_of_not_sep (by simpa using hns)
    have h1 : prefixVerbatimUNC (d :: COLON :: rest) = none := by unfold prefixVerbatimUNC; simp [hv]
    have h2 : prefixVerbatimDisk (d :: COLON :: rest) = none := by unfold prefixVerbatimDisk; simp [hv]
    have h3 : prefixVerbatim (d :: COLON :: rest) = none := by unfold prefixVerbatim; simp [h1, h2, hv]
    have h4 : prefixDeviceNS (d :: COLON :: rest) = none := by
      cases rest with
      | nil => rfl
      | cons r0 rest' =>
        cases rest' with
        | nil => rfl
        | cons r1 rest'' => simp [prefixDeviceNS, hns]
    have h5 : prefixUNC (d :: COLON :: rest) = none := by simp [prefixUNC, hns]
    unfold parsePrefix
    simp [h1, h2, h3, h4, h5, prefixDisk, diskByte, hd, hD]

/-- A verbatim-disk prefix is produced exactly for `sep sep ? sep`, an ASCII letter and `:`. -/
theorem verbatim_disk_iff (b rest : Bytes) (D : UInt8) :
    parsePrefix b = some (.verbatimDisk D, rest) ↔
      ∃ s1 s2 s3 d, b = s1 :: s2 :: QMARK :: s3 :: d :: COLON :: rest ∧
        anySep s1 = true ∧ anySep s2 = true ∧ anySep s3 = true ∧ isAsciiAlpha d = true ∧ D = toAsciiUpper d := by
  constructor
  · intro h
    unfold parsePrefix at h
    cases h1 : prefixVerbatimUNC b with
    | some x =>
      simp only [h1, Option.orElse_some, Option.some.injEq] at h; subst h
      have := C02.kind_verbatimUNC h1; simp [WPrefix.tag] at this
    | none =>
      simp only [h1, Option.orElse_none] at h
      cases h2 : prefixVerbatimDisk b with
      | some x =>
        simp only [h2, Option.orElse_some, Option.some.injEq] at h; subst h
        unfold prefixVerbatimDisk at h2
        cases hv : verbatimHdr b with
        | none => simp [hv] at h2
        | some r1 =>
          simp only [hv] at h2
          cases hd : diskByte r1 with
          | none => simp [hd] at h2
          | some y =>
            obtain ⟨d', r2⟩ := y
            simp only [hd, Option.some.injEq, Prod.mk.injEq, WPrefix.verbatimDisk.injEq] at h2
            match b, hv with
            | a :: c :: q :: e :: rr, hv =>
              simp only [verbatimHdr] at hv
              split at hv
              · rename_i hh
                simp only [Bool.and_eq_true, decide_eq_true_eq] at hh
                simp only [Option.some.injEq] at hv
                subst hv
                match rr, hd with
                | x :: c' :: rr', hd =>
                  simp only [diskByte] at hd
                  split at hd
                  · rename_i hx
                    simp only [Bool.and_eq_true, decide_eq_true_eq] at hx
                    simp only [Option.some.injEq, Prod.mk.injEq] at hd
                    refine ⟨a, c, e, x, ?_, hh.1.1.1, hh.1.1.2, hh.2, hx.1, ?_⟩
                    · rw [hh.1.2, hx.2, hd.2, h2.2]
                    · rw [← h2.1, ← hd.1]
                  · cases hd
              · cases hv
      | none =>
        simp only [h2, Option.orElse_none] at h
        cases h3 : prefixVerbatim b with
        | some x =>
          simp only [h3, Option.orElse_some, Option.some.injEq] at h; subst h
          have := C02.kind_verbatim h3; simp [WPrefix.tag] at this
        | none =>
          simp only [h3, Option.orElse_none] at h
          cases h4 : prefixDeviceNS b with
          | some x =>
            simp only [h4, Option.orElse_some, Option.some.injEq] at h; subst h
            have := C02.kind_deviceNS h4; simp [WPrefix.tag] at this
          | none =>
            simp only [h4, Option.orElse_none] at h
            cases h5 : prefixUNC b with
            | some x =>
              simp only [h5, Option.orElse_some, Option.some.injEq] at h; subst h
              have := C02.kind_unc h5; simp [WPrefix.tag] at this
            | none =>
              simp only [h5, Option.orElse_none] at h
              obtain ⟨d', _, hk', _⟩ := C02.kind_disk h; cases hk'
  · intro ⟨s1, s2, s3, d, hb, h1, h2, h3, hd, hD⟩
    subst hb
    have hv : verbatimHdr (s1 :: s2 :: QMARK :: s3 :: d :: COLON :: rest) = some (d :: COLON :: rest) := by
      simp [verbatimHdr, h1, h2, h3]
    -- the verbatim-UNC alternative fails: the text after the header is `d:`…, not `UNC`…
    have hu : takeUNC (d :: COLON :: rest) = none := by
      unfold takeUNC
      split
      · rename_i heq
        simp only [List.cons.injEq] at heq
        have : COLON = (78 : UInt8) := heq.2.1
        exact absurd this (by decide)
      · rfl
    have hunc : prefixVerbatimUNC (s1 :: s2 :: QMARK :: s3 :: d :: COLON :: rest) = none := by
      unfold prefixVerbatimUNC; simp only [hv, hu]
    unfold parsePrefix
    simp [hunc, prefixVerbatimDisk, hv, diskByte, hd, hD]

/-- what the field-taking parser returns: a non-empty, separator-free run followed by the end or
a separator -/
theorem takeNormal_iff (norm : Bool) (b n r : Bytes) :
    takeNormal norm b = some (n, r) ↔
      b = n ++ r ∧ n ≠ [] ∧ (∀ y ∈ n, wsep norm y = false) ∧
        (match r with | x :: _ => wsep norm x = true | [] => True) := by
  constructor
  · intro h
    have h0 := (takeNormal_suffix h).2
    unfold takeNormal at h
    simp only at h
    split at h
    · cases h
    · rename_i hne
      simp only [Option.some.injEq, Prod.mk.injEq] at h
      refine ⟨h0, by rw [← h.1]; exact hne, ?_, ?_⟩
      · intro y hy
        rw [← h.1] at hy
        have := mem_takeWhile_imp hy
        simpa using this
      · rw [← h.2]
        cases hd : b.dropWhile (fun x => !wsep norm x) with
        | nil => trivial
        | cons x r' =>
          have := List.head?_dropWhile_not (fun x => !wsep norm x) b
          rw [hd] at this
          simpa using this
  · intro ⟨hb, hn, hsep, hr⟩
    subst hb
    have h1 : (n ++ r).takeWhile (fun x => !wsep norm x) = n := by
      rw [List.takeWhile_append_of_pos (by intro y hy; simp [hsep y hy])]
      cases r with
      | nil => simp
      | cons x r' => simp only at hr; simp [List.takeWhile_cons, hr]
    have h2 : (n ++ r).dropWhile (fun x => !wsep norm x) = r := by
      rw [List.dropWhile_append_of_pos (by intro y hy; simp [hsep y hy])]
      cases r with
      | nil => rfl
      | cons x r' => simp only at hr; simp [List.dropWhile_cons, hr]
    unfold takeNormal
    simp only [h1, h2, hn, if_false]

/-- A device-namespace prefix is produced exactly for `sep sep . sep` followed by a non-empty
separator-free device name, itself followed by the end or a separator of either kind. -/
theorem device_ns_iff (b rest dev : Bytes) :
    parsePrefix b = some (.deviceNS dev, rest) ↔
      ∃ s1 s2 s3, b = s1 :: s2 :: DOT :: s3 :: (dev ++ rest) ∧
        anySep s1 = true ∧ anySep s2 = true ∧ anySep s3 = true ∧ dev ≠ [] ∧
        (∀ y ∈ dev, anySep y = false) ∧ (match rest with | x :: _ => anySep x = true | [] => True) := by
  constructor
  · intro h
    unfold parsePrefix at h
    cases h1 : prefixVerbatimUNC b with
    | some x =>
      simp only [h1, Option.orElse_some, Option.some.injEq] at h; subst h
      have := C02.kind_verbatimUNC h1; simp [WPrefix.tag] at this
    | none =>
      simp only [h1, Option.orElse_none] at h
      cases h2 : prefixVerbatimDisk b with
      | some x =>
        simp only [h2, Option.orElse_some, Option.some.injEq] at h; subst h
        obtain ⟨d', _, _, hk', _⟩ := C02.kind_verbatimDisk h2; cases hk'
      | none =>
        simp only [h2, Option.orElse_none] at h
        cases h3 : prefixVerbatim b with
        | some x =>
          simp only [h3, Option.orElse_some, Option.some.injEq] at h; subst h
          have := C02.kind_verbatim h3; simp [WPrefix.tag] at this
        | none =>
          simp only [h3, Option.orElse_none] at h
          cases h4 : prefixDeviceNS b with
          | some x =>
            simp only [h4, Option.orElse_some, Option.some.injEq] at h; subst h
            match b, h4 with
            | a :: c :: d :: e :: rr, h4 =>
              simp only [prefixDeviceNS] at h4
              split at h4
              · rename_i hh
                simp only [Bool.and_eq_true, decide_eq_true_eq] at hh
                cases ht : takeNormal true rr with
                | none => simp [ht] at h4
                | some y =>
                  obtain ⟨dev', r2⟩ := y
                  simp only [ht, Option.some.injEq, Prod.mk.injEq, WPrefix.deviceNS.injEq] at h4
                  obtain ⟨hb, hn, hsep, hr⟩ := (takeNormal_iff true rr dev' r2).mp ht
                  rw [h4.1] at hb hn hsep
                  rw [h4.2] at hb hr
                  exact ⟨a, c, e, by rw [hh.1.2, hb], hh.1.1.1, hh.1.1.2, hh.2, hn, hsep, hr⟩
              · cases h4
          | none =>
            simp only [h4, Option.orElse_none] at h
            cases h5 : prefixUNC b with
            | some x =>
              simp only [h5, Option.orElse_some, Option.some.injEq] at h; subst h
              have := C02.kind_unc h5; simp [WPrefix.tag] at this
            | none =>
              simp only [h5, Option.orElse_none] at h
              obtain ⟨d', _, hk', _⟩ := C02.kind_disk h; cases hk'
  · intro ⟨s1, s2, s3, hb, h1, h2, h3, hn, hsep, hr⟩
    subst hb
    -- the verbatim forms fail: the third byte is `.`, not `?`
    have hv : verbatimHdr (s1 :: s2 :: DOT :: s3 :: (dev ++ rest)) = none := by
      simp [verbatimHdr, DOT, QMARK]
    have hu : prefixVerbatimUNC (s1 :: s2 :: DOT :: s3 :: (dev ++ rest)) = none := by
      unfold prefixVerbatimUNC; simp only [hv]
    have hd : prefixVerbatimDisk (s1 :: s2 :: DOT :: s3 :: (dev ++ rest)) = none := by
      unfold prefixVerbatimDisk; simp only [hv]
    have hvb : prefixVerbatim (s1 :: s2 :: DOT :: s3 :: (dev ++ rest)) = none := by
      unfold prefixVerbatim; simp [hu, hd, hv]
    have ht : takeNormal true (dev ++ rest) = some (dev, rest) :=
      (takeNormal_iff true _ dev rest).mpr ⟨rfl, hn, hsep, hr⟩
    unfold parsePrefix
    simp [hu, hd, hvb, prefixDeviceNS, h1, h2, h3, ht]

/-- The two `not(...)` guards of `prefix_verbatim` are redundant where `prefix` calls it: it is
reached only after the verbatim-UNC and verbatim-disk alternatives have failed. -/
theorem prefixVerbatim_guards_redundant (b : Bytes) (h1 : prefixVerbatimUNC b = none)
    (h2 : prefixVerbatimDisk b = none) :
    prefixVerbatim b =
      (match verbatimHdr b with
       | none => none
       | some r =>
         match takeNormal (!startsWith b VERB) r with
         | some (name, r') => some (.verbatim name, r')
         | none => match takeSep (!startsWith b VERB) r with
           | some _ => some (.verbatim [], r)
           | none => none) := by
  unfold prefixVerbatim
  simp only [h1, h2, Option.isSome_none, Bool.false_eq_true, if_false]
  cases verbatimHdr b with
  | none => rfl
  | some r =>
    simp only
    cases takeNormal (!startsWith b VERB) r with
    | some x => rfl
    | none =>
      simp only
      cases takeSep (!startsWith b VERB) r <;> rfl

/-- For every kind, the header the input carries. -/
theorem kind_header (b rest : Bytes) (k : WPrefix) (h : parsePrefix b = some (k, rest)) :
    (k.tag ≤ 2 → ∃ s1 s2 s3 v, b = s1 :: s2 :: QMARK :: s3 :: v ∧ anySep s1 = true ∧ anySep s2 = true ∧ anySep s3 = true) ∧
    (k.tag = 3 → ∃ s1 s2 s3 v, b = s1 :: s2 :: DOT :: s3 :: v ∧ anySep s1 = true ∧ anySep s2 = true ∧ anySep s3 = true) ∧
    (k.tag = 4 → ∃ s1 s2 v, b = s1 :: s2 :: v ∧ anySep s1 = true ∧ anySep s2 = true) ∧
    (k.tag = 5 → ∃ d v, b = d :: COLON :: v ∧ isAsciiAlpha d = true) := by
  have hdr : ∀ r, verbatimHdr b = some r →
      ∃ s1 s2 s3 v, b = s1 :: s2 :: QMARK :: s3 :: v ∧ anySep s1 = true ∧ anySep s2 = true ∧ anySep s3 = true := by
    intro r hv
    match b, hv with
    | a :: c :: q :: e :: rr, hv =>
      simp only [verbatimHdr] at hv
      split at hv
      · rename_i hh
        simp only [Bool.and_eq_true, decide_eq_true_eq] at hh
        exact ⟨a, c, e, rr, by rw [hh.1.2], hh.1.1.1, hh.1.1.2, hh.2⟩
      · cases hv
  unfold parsePrefix at h
  cases h1 : prefixVerbatimUNC b with
  | some x =>
    simp only [h1, Option.orElse_some, Option.some.injEq] at h; subst h
    have ht := C02.kind_verbatimUNC h1
    refine ⟨fun _ => ?_, fun h' => by omega, fun h' => by omega, fun h' => by omega⟩
    unfold prefixVerbatimUNC at h1
    simp only at h1
    cases hv : verbatimHdr b with
    | none => simp [hv] at h1
    | some r1 => exact hdr r1 hv
  | none =>
    simp only [h1, Option.orElse_none] at h
    cases h2 : prefixVerbatimDisk b with
    | some x =>
      simp only [h2, Option.orElse_some, Option.some.injEq] at h; subst h
      obtain ⟨d', _, _, hk', _⟩ := C02.kind_verbatimDisk h2
      refine ⟨fun _ => ?_, fun h' => by rw [hk'] at h'; simp [WPrefix.tag] at h',
        fun h' => by rw [hk'] at h'; simp [WPrefix.tag] at h', fun h' => by rw [hk'] at h'; simp [WPrefix.tag] at h'⟩
      unfold prefixVerbatimDisk at h2
      cases hv : verbatimHdr b with
      | none => simp [hv] at h2
      | some r1 => exact hdr r1 hv
    | none =>
      simp only [h2, Option.orElse_none] at h
      cases h3 : prefixVerbatim b with
      | some x =>
        simp only [h3, Option.orElse_some, Option.some.injEq] at h; subst h
        have ht := C02.kind_verbatim h3
        refine ⟨fun _ => ?_, fun h' => by omega, fun h' => by omega, fun h' => by omega⟩
        rw [prefixVerbatim_guards_redundant b h1 h2] at h3
        cases hv : verbatimHdr b with
        | none => simp [hv] at h3
        | some r1 => exact hdr r1 hv
      | none =>
        simp only [h3, Option.orElse_none] at h
        cases h4 : prefixDeviceNS b with
        | some x =>
          simp only [h4, Option.orElse_some, Option.some.injEq] at h; subst h
          have ht := C02.kind_deviceNS h4
          refine ⟨fun h' => by omega, fun _ => ?_, fun h' => by omega, fun h' => by omega⟩
          match b, h4 with
          | a :: c :: d :: e :: rr, h4 =>
            simp only [prefixDeviceNS] at h4
            split at h4
            · rename_i hh
              simp only [Bool.and_eq_true, decide_eq_true_eq] at hh
              exact ⟨a, c, e, rr, by rw [hh.1.2], hh.1.1.1, hh.1.1.2, hh.2⟩
            · cases h4
        | none =>
          simp only [h4, Option.orElse_none] at h
          cases h5 : prefixUNC b with
          | some x =>
            simp only [h5, Option.orElse_some, Option.some.injEq] at h; subst h
            have ht := C02.kind_unc h5
            refine ⟨fun h' => by omega, fun h' => by omega, fun _ => ?_, fun h' => by omega⟩
            match b, h5 with
            | a :: c :: rr, h5 =>
              simp only [prefixUNC] at h5
              split at h5
              · rename_i hh
                simp only [Bool.and_eq_true] at hh
                exact ⟨a, c, rr, rfl, hh.1, hh.2⟩
              · cases h5
          | none =>
            simp only [h5, Option.orElse_none] at h
            obtain ⟨d', r2, hk', hdb⟩ := C02.kind_disk h
            refine ⟨fun h' => by rw [hk'] at h'; simp [WPrefix.tag] at h',
              fun h' => by rw [hk'] at h'; simp [WPrefix.tag] at h',
              fun h' => by rw [hk'] at h'; simp [WPrefix.tag] at h', fun _ => ?_⟩
            match b, hdb with
            | x :: c :: rr, hdb =>
              simp only [diskByte] at hdb
              split at hdb
              · rename_i hx
                simp only [Bool.and_eq_true, decide_eq_true_eq] at hx
                exact ⟨x, rr, by rw [hx.2], hx.1⟩
              · cases hdb

/-! ### Non-vacuity -/

example : parsePrefix [99, 58, 92, 97] = some (.disk 67, [92, 97]) := by decide
example : parsePrefix [47, 47, 46, 47, 100, 92, 120] = some (.deviceNS [100], [92, 120]) := by decide
example : parsePrefix [92, 92, 63, 92, 99, 58] = some (.verbatimDisk 67, []) := by decide

end TP.C02b
