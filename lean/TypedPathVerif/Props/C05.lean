/-
Props/C05.lean — Equality, ordering and hashing of paths are mutually coherent.
-/
import TypedPathVerif.Lemmas.Order
import TypedPathVerif.Spec.HashSpec
import TypedPathVerif.Props.C03
import TypedPathVerif.Generated.Api

namespace TP.C05

open TP

/-! ### the model's comparison functions are lexicographic combinations -/

def cmpByte (a b : UInt8) : Ordering := cmpNat a.toNat b.toNat

theorem cmpBytes_eq_lex : ∀ (a b : Bytes), cmpBytes a b = lexCmp cmpByte a b
  | [], [] => rfl
  | [], _ :: _ => rfl
  | _ :: _, [] => rfl
  | x :: xs, y :: ys => by
    simp only [cmpBytes, lexCmp, cmpByte, cmpNat, cmpBytes_eq_lex xs ys, UInt8.lt_iff_toNat_lt]
    by_cases h1 : x.toNat < y.toNat
    · simp [h1, Ordering.then]
    · by_cases h2 : y.toNat < x.toNat
      · simp [h1, h2, Ordering.then]
      · simp [h1, h2, Ordering.then]

theorem isOrd_cmpByte : IsOrd cmpByte := isOrd_comap isOrd_cmpNat UInt8.toNat

theorem cmpByte_eq_iff (a b : UInt8) : cmpByte a b = .eq ↔ a = b := by
  unfold cmpByte
  rw [cmpNat_eq_iff]
  exact ⟨fun h => UInt8.toNat_inj.mp h, fun h => by rw [h]⟩

theorem isOrd_cmpBytes : IsOrd cmpBytes := by
  have : cmpBytes = lexCmp cmpByte := by funext a b; exact cmpBytes_eq_lex a b
  rw [this]; exact isOrd_lexCmp isOrd_cmpByte

theorem cmpBytes_eq_iff (a b : Bytes) : cmpBytes a b = .eq ↔ a = b := by
  rw [cmpBytes_eq_lex]; exact lexCmp_eq_iff cmpByte_eq_iff a b

/-- key of a prefix kind: declaration index, then the payloads -/
def pkey : WPrefix → Nat × Bytes × Bytes
  | .verbatim a => (0, a, [])
  | .verbatimUNC a b => (1, a, b)
  | .verbatimDisk d => (2, [d], [])
  | .deviceNS a => (3, a, [])
  | .unc a b => (4, a, b)
  | .disk d => (5, [d], [])

def keyCmp (x y : Nat × Bytes × Bytes) : Ordering :=
  (cmpNat x.1 y.1).then ((cmpBytes x.2.1 y.2.1).then (cmpBytes x.2.2 y.2.2))

theorem isOrd_keyCmp : IsOrd keyCmp :=
  isOrd_then isOrd_cmpNat (isOrd_then isOrd_cmpBytes isOrd_cmpBytes)

theorem then_eq_right (o : Ordering) : o.then .eq = o := by cases o <;> rfl
theorem lt_then (o : Ordering) : Ordering.lt.then o = .lt := rfl
theorem gt_then (o : Ordering) : Ordering.gt.then o = .gt := rfl
theorem eq_then (o : Ordering) : Ordering.eq.then o = o := rfl

theorem cmpBytes_single (a b : UInt8) : cmpBytes [a] [b] = cmpNat a.toNat b.toNat := by
  simp only [cmpBytes, cmpNat, UInt8.lt_iff_toNat_lt]

theorem wprefix_cmp_key (x y : WPrefix) : x.cmp y = keyCmp (pkey x) (pkey y) := by
  cases x <;> cases y <;>
    simp [WPrefix.cmp, keyCmp, pkey, WPrefix.tag, cmpNat, then_eq_right, lt_then, gt_then, eq_then,
      cmpBytes_single, cmpBytes]

theorem isOrd_wprefix : IsOrd WPrefix.cmp := by
  have : WPrefix.cmp = fun x y => keyCmp (pkey x) (pkey y) := by funext x y; exact wprefix_cmp_key x y
  rw [this]; exact isOrd_comap isOrd_keyCmp pkey

theorem keyCmp_eq_iff (x y : Nat × Bytes × Bytes) : keyCmp x y = .eq ↔ x = y := by
  obtain ⟨x1, x2, x3⟩ := x
  obtain ⟨y1, y2, y3⟩ := y
  simp only [keyCmp, Prod.mk.injEq]
  constructor
  · intro h
    cases e1 : cmpNat x1 y1 with
    | lt => simp [e1, Ordering.then] at h
    | gt => simp [e1, Ordering.then] at h
    | eq =>
      simp only [e1, Ordering.then] at h
      cases e2 : cmpBytes x2 y2 with
      | lt => simp [e2] at h
      | gt => simp [e2] at h
      | eq =>
        simp only [e2] at h
        exact ⟨(cmpNat_eq_iff _ _).mp e1, (cmpBytes_eq_iff _ _).mp e2, (cmpBytes_eq_iff _ _).mp h⟩
  · intro ⟨h1, h2, h3⟩
    subst h1; subst h2; subst h3
    simp [(cmpNat_eq_iff x1 x1).mpr rfl, (cmpBytes_eq_iff x2 x2).mpr rfl, (cmpBytes_eq_iff x3 x3).mpr rfl,
      Ordering.then]

theorem pkey_inj (x y : WPrefix) (h : pkey x = pkey y) : x = y := by
  cases x <;> cases y <;> simp_all [pkey]

theorem wprefix_cmp_eq_iff (x y : WPrefix) : x.cmp y = .eq ↔ x = y := by
  rw [wprefix_cmp_key, keyCmp_eq_iff]
  exact ⟨pkey_inj x y, fun h => by rw [h]⟩

/-- key of a component: kind index, prefix key, name -/
def ckey : Comp → Nat × (Nat × Bytes × Bytes) × Bytes
  | .pfx p => (0, pkey p.kind, [])
  | .root => (1, (0, [], []), [])
  | .cur => (2, (0, [], []), [])
  | .parent => (3, (0, [], []), [])
  | .normal s => (4, (0, [], []), s)

def ckeyCmp (x y : Nat × (Nat × Bytes × Bytes) × Bytes) : Ordering :=
  (cmpNat x.1 y.1).then ((keyCmp x.2.1 y.2.1).then (cmpBytes x.2.2 y.2.2))

theorem isOrd_ckeyCmp : IsOrd ckeyCmp := isOrd_then isOrd_cmpNat (isOrd_then isOrd_keyCmp isOrd_cmpBytes)

theorem keyCmp_self (x : Nat × Bytes × Bytes) : keyCmp x x = .eq := (keyCmp_eq_iff x x).mpr rfl

theorem comp_cmp_key (x y : Comp) : x.cmp y = ckeyCmp (ckey x) (ckey y) := by
  cases x <;> cases y <;>
    simp [Comp.cmp, ckeyCmp, ckey, Comp.tag, cmpNat, then_eq_right, lt_then, gt_then, eq_then, wprefix_cmp_key,
      keyCmp_self, cmpBytes]

theorem isOrd_comp : IsOrd Comp.cmp := by
  have : Comp.cmp = fun x y => ckeyCmp (ckey x) (ckey y) := by funext x y; exact comp_cmp_key x y
  rw [this]; exact isOrd_comap isOrd_ckeyCmp ckey

theorem cmpList_eq_lex : ∀ (a b : List Comp), cmpList a b = lexCmp Comp.cmp a b
  | [], [] => rfl
  | [], _ :: _ => rfl
  | _ :: _, [] => rfl
  | x :: xs, y :: ys => by simp only [cmpList, lexCmp, cmpList_eq_lex xs ys]

theorem isOrd_cmpList : IsOrd cmpList := by
  have : cmpList = lexCmp Comp.cmp := by funext a b; exact cmpList_eq_lex a b
  rw [this]; exact isOrd_lexCmp isOrd_comp

/-! ### equality -/

/-- a component as equality sees it: the prefix by its parsed kind only -/
def Comp.norm : Comp → Comp
  | .pfx p => .pfx ⟨[], p.kind⟩
  | c => c

theorem eqv_iff_norm (x y : Comp) : x.eqv y = true ↔ Comp.norm x = Comp.norm y := by
  cases x <;> cases y <;> simp [Comp.eqv, Comp.norm]

theorem eqvList_iff : ∀ (a b : List Comp), eqvList a b = true ↔ a.map Comp.norm = b.map Comp.norm
  | [], [] => by simp [eqvList]
  | [], _ :: _ => by simp [eqvList]
  | _ :: _, [] => by simp [eqvList]
  | x :: xs, y :: ys => by
    simp only [eqvList, Bool.and_eq_true, eqv_iff_norm, eqvList_iff xs ys, List.map_cons, List.cons.injEq]

/-- Two paths are equal exactly when their component sequences are equal (the prefix being
compared by kind and payload, not by spelling). -/
theorem eq_iff_comps (e : Enc) (a b : Bytes) :
    pathEq e a b = true ↔ (comps e a).map Comp.norm = (comps e b).map Comp.norm :=
  eqvList_iff _ _

theorem comp_cmp_eq_iff (x y : Comp) : x.cmp y = .eq ↔ Comp.norm x = Comp.norm y := by
  cases x <;> cases y <;>
    simp [Comp.cmp, Comp.norm, Comp.tag, cmpNat, wprefix_cmp_eq_iff, cmpBytes_eq_iff]

theorem cmpList_eq_iff : ∀ (a b : List Comp), cmpList a b = .eq ↔ a.map Comp.norm = b.map Comp.norm
  | [], [] => by simp [cmpList]
  | [], _ :: _ => by simp [cmpList]
  | _ :: _, [] => by simp [cmpList]
  | x :: xs, y :: ys => by
    simp only [cmpList, List.map_cons, List.cons.injEq, ← comp_cmp_eq_iff, ← cmpList_eq_iff xs ys]
    cases x.cmp y <;> simp [Ordering.then]

/-- Ordering says `Equal` exactly for equal paths. -/
theorem cmp_equal_iff_eq (e : Enc) (a b : Bytes) : pathCmp e a b = .eq ↔ pathEq e a b = true := by
  rw [eq_iff_comps]; exact cmpList_eq_iff _ _

/-- Ordering is lexicographic on components … -/
theorem cmp_lexicographic (e : Enc) (a b : Bytes) :
    pathCmp e a b = lexCmp Comp.cmp (comps e a) (comps e b) := cmpList_eq_lex _ _

/-- … and a total order: antisymmetric (swapping the arguments swaps the answer), transitive,
and `Equal` is a congruence. -/
theorem cmp_total_order (e : Enc) : IsOrd (pathCmp e) := isOrd_comap isOrd_cmpList (comps e)

theorem cmp_transitive (e : Enc) (a b d : Bytes) (h1 : pathCmp e a b ≠ .gt) (h2 : pathCmp e b d ≠ .gt) :
    pathCmp e a d ≠ .gt := (cmp_total_order e).trans_le a b d h1 h2

/-! ### hashing

`hashSpec` says what is fed to the hasher in terms of the *components*: the derived hash of
the parsed prefix kind, then the text of every component except the root separator, then the
number of bytes written.  `lean/Driver.lean` prints it next to the byte-level model of the
Rust loop (`hashChunks`) and the harness compares both with the recorded `Hasher::write`
calls of the implementation on every run. -/

theorem hashTexts_norm (e : Enc) : ∀ (cs : List Comp), hashTexts e (cs.map Comp.norm) = hashTexts e cs
  | [] => rfl
  | c :: r => by cases c <;> simp [hashTexts, Comp.norm, hashTexts_norm e r, Comp.bytes]

theorem hashPrefix_norm : ∀ (cs : List Comp), hashPrefix (cs.map Comp.norm) = hashPrefix cs
  | [] => rfl
  | c :: r => by cases c <;> simp [hashPrefix, Comp.norm]

/-- Equal paths feed identical data — the same sequence of `write` calls — to any hasher. -/
theorem eq_implies_same_hash (e : Enc) (a b : Bytes) (h : pathEq e a b = true) :
    hashSpec e a = hashSpec e b := by
  have hn := (eq_iff_comps e a b).mp h
  unfold hashSpec
  simp only
  rw [← hashTexts_norm e (comps e a), ← hashPrefix_norm (comps e a), hn, hashTexts_norm, hashPrefix_norm]

/-! ### Non-vacuity -/

example : pathEq .windows [67, 58, 92, 97] [99, 58, 47, 97, 47, 46] = true := by
  unfold pathEq; rw [C03.comps_new_closed, C03.comps_new_closed]; decide
example : pathCmp .unix [97, 47, 98] [97, 47, 99] = .lt := by
  unfold pathCmp; rw [C03.comps_new_closed, C03.comps_new_closed]; decide
example : hashSpec .unix [47, 97, 47, 46, 47, 98] = [[97], [98], usizeChunk 2] := by
  unfold hashSpec; rw [C03.comps_new_closed]; decide

/-- the mixed-type comparison impls the oracle runs in both operand orders (harness/src/orc_a.rs,
clause `mixed-type-impls-agree`: the 16 `mixed_all!` checks for the byte family and again for the
UTF-8 family) -/
def coveredCmpPairs : List String :=
  ["non_utf8 impl_cmp PathBuf<T>,Path<T>",
   "non_utf8 impl_cmp PathBuf<T>,&Path<T>",
   "non_utf8 impl_cmp Cow<Path<T>>,Path<T>",
   "non_utf8 impl_cmp Cow<Path<T>>,&Path<T>",
   "non_utf8 impl_cmp Cow<Path<T>>,PathBuf<T>",
   "non_utf8 impl_cmp_bytes PathBuf<T>,[u8]",
   "non_utf8 impl_cmp_bytes PathBuf<T>,&[u8]",
   "non_utf8 impl_cmp_bytes PathBuf<T>,Cow<[u8]>",
   "non_utf8 impl_cmp_bytes PathBuf<T>,Vec<u8>",
   "non_utf8 impl_cmp_bytes Path<T>,[u8]",
   "non_utf8 impl_cmp_bytes Path<T>,&[u8]",
   "non_utf8 impl_cmp_bytes Path<T>,Cow<[u8]>",
   "non_utf8 impl_cmp_bytes Path<T>,Vec<u8>",
   "non_utf8 impl_cmp_bytes &Path<T>,[u8]",
   "non_utf8 impl_cmp_bytes &Path<T>,Cow<[u8]>",
   "non_utf8 impl_cmp_bytes &Path<T>,Vec<u8>",
   "utf8 impl_cmp Utf8PathBuf<T>,Utf8Path<T>",
   "utf8 impl_cmp Utf8PathBuf<T>,&Utf8Path<T>",
   "utf8 impl_cmp Cow<Utf8Path<T>>,Utf8Path<T>",
   "utf8 impl_cmp Cow<Utf8Path<T>>,&Utf8Path<T>",
   "utf8 impl_cmp Cow<Utf8Path<T>>,Utf8PathBuf<T>",
   "utf8 impl_cmp_bytes Utf8PathBuf<T>,str",
   "utf8 impl_cmp_bytes Utf8PathBuf<T>,&str",
   "utf8 impl_cmp_bytes Utf8PathBuf<T>,Cow<str>",
   "utf8 impl_cmp_bytes Utf8PathBuf<T>,String",
   "utf8 impl_cmp_bytes Utf8Path<T>,str",
   "utf8 impl_cmp_bytes Utf8Path<T>,&str",
   "utf8 impl_cmp_bytes Utf8Path<T>,Cow<str>",
   "utf8 impl_cmp_bytes Utf8Path<T>,String",
   "utf8 impl_cmp_bytes &Utf8Path<T>,str",
   "utf8 impl_cmp_bytes &Utf8Path<T>,Cow<str>",
   "utf8 impl_cmp_bytes &Utf8Path<T>,String"]

/-- the source generates exactly these mixed-type impls now (regenerated table, gen/api.py): a
new `impl_cmp!` pair that the oracle does not compare breaks this -/
theorem cmp_pairs_covered : Generated.cmpPairs = coveredCmpPairs := rfl

end TP.C05
