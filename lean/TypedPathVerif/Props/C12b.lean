/-
Props/C12b.lean — the replacement clause of C12 and the re-parse clause of C13, for Unix.

Replacing the file name by a single good name `n` yields a path whose file name is `n` and whose
parent has the old parent's components; with no file name the result is the old path joined with
`n`.  After `set_extension` the path has the old parent's components and the file name
stem[.ext] (when that is a name at all).
-/
import TypedPathVerif.Props.C11
import TypedPathVerif.Props.C13
import TypedPathVerif.Props.C10

namespace TP.C12b

open TP

theorem comps_getLast_dropLast (l : List Comp) (c : Comp) (h : l.getLast? = some c) : l = l.dropLast ++ [c] :=
  list_eq_dropLast_append h

/-- file name and parent components of a path whose components end with a good name -/
theorem fileName_parent_of_comps (b : Bytes) (cs : List Comp) (n : Bytes) (h : comps .unix b = cs ++ [.normal n]) :
    fileName .unix b = some n ∧ ∃ q, parent .unix b = some q ∧ comps .unix q = cs := by
  have hfn : fileName .unix b = some n := by
    rw [C12.file_name_iff_last_normal, h]; simp
  refine ⟨hfn, ?_⟩
  cases hp : parent .unix b with
  | none =>
    have := (C09.parent_none_iff .unix b).mp hp
    rcases this with h0 | ⟨c, hc, hk⟩
    · rw [h0] at h; simp at h
    · rw [h] at hc
      simp at hc
      rcases hk with hk | ⟨p, hk⟩ <;> (rw [← hc] at hk; cases hk)
  | some q =>
    refine ⟨q, rfl, ?_⟩
    rw [C09.unix_parent_comps b q hp, h]
    simp

/-- Unix: replacing the file name by a good single name. -/
theorem unix_with_file_name (b n : Bytes) (hn : C11.nameOK n) :
    (∀ f, fileName .unix b = some f →
      fileName .unix (setFileName .unix b n) = some n ∧
      ∃ q q', parent .unix b = some q ∧ parent .unix (setFileName .unix b n) = some q' ∧
        comps .unix q' = comps .unix q) ∧
    (fileName .unix b = none → setFileName .unix b n = push .unix b n) := by
  constructor
  · intro f hf
    have hlast := (C12.file_name_iff_last_normal .unix b f).mp hf
    have hcb := comps_getLast_dropLast _ _ hlast
    obtain ⟨_, q, hq, hcq⟩ := fileName_parent_of_comps b _ f hcb
    have hset : setFileName .unix b n = push .unix q n := by
      simp only [setFileName, hf, Option.isSome_some, if_true]
      rw [C09.pop_eq_parent, hq]
    -- components of the result
    have hres : comps .unix (push .unix q n) = comps .unix q ++ [.normal n] := by
      by_cases hqe : q = []
      · subst hqe
        have : push .unix [] n = n := C10.unix_join_empty_base n hn.1
        rw [this, C11.comps_name n hn, C10.comps_nil]; rfl
      · rw [show push .unix q n = unixPush q n from rfl,
          unix_push_comps q n hn.1 (C11.name_not_absolute n hn) hqe, C11.comps_name n hn]
        rfl
    rw [hset]
    obtain ⟨h1, q', hq', hcq'⟩ := fileName_parent_of_comps _ _ n hres
    exact ⟨h1, q, q', hq, hq', hcq'⟩
  · intro hnone
    simp [setFileName, hnone]

/-! ### set_extension, re-parsed (Unix) -/

theorem toks_untoks_append_seg (r : List Tok) (s : Bytes) (hw : WFToks usep (r ++ [.seg s])) :
    toks usep (untoks r ++ s) = r ++ [.seg s] := by
  have := toks_untoks (r ++ [.seg s]) hw
  rw [C09.untoks_append] at this
  simpa [untoks, Tok.bytes] using this

theorem WFToks_replace_last (r : List Tok) (s s' : Bytes) (hw : WFToks usep (r ++ [.seg s]))
    (h1 : s' ≠ []) (h2 : ∀ y ∈ s', usep y = false) : WFToks usep (r ++ [.seg s']) := by
  induction r with
  | nil => exact ⟨h1, h2, trivial, trivial⟩
  | cons t r ih =>
    cases t with
    | sep x => exact ⟨hw.1, ih hw.2⟩
    | seg s0 =>
      obtain ⟨a1, a2, a3, a4⟩ := hw
      refine ⟨a1, a2, ?_, ih a4⟩
      cases r with
      | nil => exact absurd a3 (by simp [notSegHead])
      | cons t' r' => cases t' <;> simpa [notSegHead] using a3

/-- components of a token list that ends with a non-junk segment followed by junk only -/
def frontPart : List Tok → List Comp
  | [] => []
  | t :: r0 => headComp t :: body false r0

theorem compsT_snoc_seg (r : List Tok) (s : Bytes) (j : List Tok) (hs : junk false (.seg s) = false)
    (hj : ∀ t ∈ j, junk false t = true) :
    compsT false true (r ++ [.seg s] ++ j) = frontPart r ++ [segComp false s] := by
  cases r with
  | nil =>
    simp only [List.nil_append, List.cons_append, compsT_true_cons, headComp, frontPart]
    rw [body_all_junk hj, segComp_of_not_junk hs]
  | cons t r0 =>
    simp only [List.cons_append, compsT_true_cons, frontPart]
    rw [body_append, body_append, body_all_junk hj, body_cons_seg [] hs]
    simp

/-- Unix: after `set_extension x` (with `x` separator-free) the path's components are the old
ones with the file name replaced by stem[.x] — same parent, new file name — provided stem[.x]
is a name at all (it is not when the stem is `.` or `..` and `x` is empty: std has the same
corner). -/
theorem unix_set_ext_comps (b x f : Bytes) (h : fileName .unix b = some f)
    (hx : ∀ y ∈ x, usep y = false) :
    ∃ st, fileStem .unix b = some st ∧
      let newName := st ++ (if x = [] then [] else DOT :: x)
      (newName ≠ CUR → newName ≠ PAR →
        comps .unix (setExtension .unix b x).1 = (comps .unix b).dropLast ++ [.normal newName]) := by
  obtain ⟨r, j, st, hts, hjunk, hstem, hset⟩ := C13.set_ext_tokens .unix b x f h
  refine ⟨st, hstem, ?_⟩
  intro newName hc hp
  have hwf := WFToks_toks usep b
  have htoks : (Enc.new .unix b).toks = toks usep b := rfl
  have hk : (Enc.new .unix b).k = false := rfl
  rw [htoks] at hts
  rw [hk] at hjunk
  -- stem is a non-empty, separator-free prefix of the file name
  obtain ⟨st', rest, hst', hf, _⟩ := C13.rsplitDot_stem_prefix f
  have hsteq : st' = st := by
    have : fileStem .unix b = some st' := by simp only [fileStem, h]; exact hst'
    rw [hstem] at this; exact (Option.some.inj this).symm
  subst hsteq
  have hwrf : WFToks usep (r ++ [.seg f]) := by
    rw [hts] at hwf
    exact WFToks_prefix _ hwf
  have hfok : f ≠ [] ∧ ∀ y ∈ f, usep y = false := by
    have := WFToks_suffix r hwrf
    exact ⟨this.1, this.2.1⟩
  have hst_ne : st' ≠ [] := by
    rcases rsplitDot_spec f with ⟨h1, _⟩ | ⟨h1, _⟩ | ⟨bf, af, h1, _, _, hne, _⟩
    · simp [h1] at hst'; rw [← hst']; exact hfok.1
    · simp [h1] at hst'; rw [← hst']; exact hfok.1
    · simp [h1] at hst'; rw [← hst']; exact hne
  have hnn : newName ≠ [] := by
    intro h0
    have : st' = [] := by
      have := congrArg List.length h0
      simp only [newName, List.length_append, List.length_nil] at this
      exact List.eq_nil_of_length_eq_zero (by omega)
    exact hst_ne this
  have hnsep : ∀ y ∈ newName, usep y = false := by
    intro y hy
    rcases List.mem_append.mp hy with hy | hy
    · exact hfok.2 y (by rw [hf]; simp [hy])
    · split at hy
      · simp at hy
      · rcases List.mem_cons.mp hy with hy | hy
        · rw [hy]; decide
        · exact hx y hy
  have hwnew := WFToks_replace_last r f newName hwrf hnn hnsep
  have hres : (setExtension .unix b x).1 = untoks r ++ newName := by
    rw [hset]; simp [PState.preBytes, Enc.new, newName, List.append_assoc]
  -- the old components: frontPart r ++ [normal f]
  have hlast := (C12.file_name_iff_last_normal .unix b f).mp h
  have hfj : junk false (.seg f) = false := by
    -- f is the text of a normal component of a parsed path, so it is not `.`
    have hmem : Comp.normal f ∈ comps .unix b := List.mem_of_getLast? hlast
    have hfne : f ≠ CUR := (C06.canon_comps b _ hmem).1
    simp [junk, hfne]
  have hold : comps .unix b = frontPart r ++ [segComp false f] := by
    rw [unix_comps_eq, hts]; exact compsT_snoc_seg r f j hfj hjunk
  have hnj : junk false (.seg newName) = false := by simp [junk, hc]
  have hnew : comps .unix (untoks r ++ newName) = frontPart r ++ [segComp false newName] := by
    rw [unix_comps_eq, toks_untoks_append_seg r newName hwnew]
    have := compsT_snoc_seg r newName [] hnj (by simp)
    simpa using this
  rw [hres, hnew, hold]
  simp [segComp, hp, hc]

/-- hence: same parent components, and the file name is stem[.x] -/
theorem unix_set_ext_name_parent (b x f : Bytes) (h : fileName .unix b = some f)
    (hx : ∀ y ∈ x, usep y = false) :
    ∃ st, fileStem .unix b = some st ∧
      let newName := st ++ (if x = [] then [] else DOT :: x)
      (newName ≠ CUR → newName ≠ PAR →
        fileName .unix (setExtension .unix b x).1 = some newName ∧
        ∃ q q', parent .unix b = some q ∧ parent .unix (setExtension .unix b x).1 = some q' ∧
          comps .unix q' = comps .unix q) := by
  obtain ⟨st, hst, hmain⟩ := unix_set_ext_comps b x f h hx
  refine ⟨st, hst, ?_⟩
  intro newName hc hp
  have hcomps := hmain hc hp
  have hlast := (C12.file_name_iff_last_normal .unix b f).mp h
  have hcb := comps_getLast_dropLast _ _ hlast
  obtain ⟨_, q, hq, hcq⟩ := fileName_parent_of_comps b _ f hcb
  obtain ⟨h1, q', hq', hcq'⟩ := fileName_parent_of_comps _ _ newName hcomps
  exact ⟨h1, q, q', hq, hq', by rw [hcq', hcq]⟩

/-! ### Non-vacuity -/

example : setFileName .unix [47, 97, 47, 98] [99] = [47, 97, 47, 99] := by decide
example : (setExtension .unix [47, 97, 46, 98, 47, 47] [99]).1 = [47, 97, 46, 99] := by decide

end TP.C12b
