/-
Props/C17.lean — The validity predicate matches the documented forbidden-byte sets.

`Generated/Constants.lean` holds the four tables as they are in /repo *now* (regenerated on
every run), so a changed table breaks `*_forbidden_eq` in the kernel.
-/
import TypedPathVerif.Props.C03

namespace TP.C17

open TP

/-- the documented sets: `/` and NUL on Unix -/
def unixDoc : List UInt8 := [47, 0]
/-- `\ / : ? * " > < |` and NUL on Windows -/
def windowsDoc : List UInt8 := [92, 47, 58, 63, 42, 34, 62, 60, 124, 0]

def docSet : Enc → List UInt8
  | .unix => unixDoc
  | .windows => windowsDoc

def sameSet (a b : List UInt8) : Bool := a.all (fun x => b.contains x) && b.all (fun x => a.contains x)

theorem sameSet_mem {a b : List UInt8} (h : sameSet a b = true) (x : UInt8) : x ∈ a ↔ x ∈ b := by
  simp only [sameSet, Bool.and_eq_true, List.all_eq_true, List.contains_iff_mem] at h
  exact ⟨fun hx => h.1 x hx, fun hx => h.2 x hx⟩

/-- the byte table in the source is the documented Unix set -/
theorem unix_forbidden_eq : sameSet Generated.unixDisallowedBytes unixDoc = true := by decide

/-- the byte table in the source is the documented Windows set -/
theorem windows_forbidden_eq : sameSet Generated.windowsDisallowedBytes windowsDoc = true := by decide

/-- the `char` tables (used by the UTF-8 types) hold the same code points as the byte tables -/
theorem char_tables_eq :
    Generated.unixDisallowedChars.map UInt8.ofNat = Generated.unixDisallowedBytes ∧
    Generated.windowsDisallowedChars.map UInt8.ofNat = Generated.windowsDisallowedBytes ∧
    Generated.unixDisallowedChars.all (· < 128) = true ∧
    Generated.windowsDisallowedChars.all (· < 128) = true := by decide

/-- the separators and dot constants the model hard-codes are the ones in the source -/
theorem constants_eq :
    Generated.unixSeparator = SLASH ∧ Generated.windowsSeparator = BSLASH ∧
    Generated.windowsAltSeparator = SLASH ∧
    Generated.unixCurrentDir = CUR ∧ Generated.unixParentDir = PAR ∧
    Generated.windowsCurrentDir = CUR ∧ Generated.windowsParentDir = PAR := by decide

theorem forbidden_mem (e : Enc) (x : UInt8) : x ∈ forbidden e ↔ x ∈ docSet e := by
  cases e with
  | unix => exact sameSet_mem unix_forbidden_eq x
  | windows => exact sameSet_mem windows_forbidden_eq x

/-- a name is clean when it contains no documented forbidden byte -/
def clean (e : Enc) (s : Bytes) : Prop := ∀ x ∈ s, x ∉ docSet e

theorem any_forbidden_iff (e : Enc) (s : Bytes) :
    s.any (fun b => (forbidden e).contains b) = false ↔ clean e s := by
  unfold clean
  rw [Bool.eq_false_iff]
  simp only [ne_eq, List.any_eq_true, List.contains_iff_mem, not_exists, not_and]
  constructor
  · intro h x hx hd; exact h x hx ((forbidden_mem e x).mpr hd)
  · intro h x hx hf; exact h x hx ((forbidden_mem e x).mp hf)

/-- Per-component predicate: only a normal component can be invalid, and it is valid exactly
when its name is clean; prefixes, roots, `.` and `..` are always valid. -/
theorem comp_valid_iff (e : Enc) (c : Comp) :
    c.isValid e = true ↔ ∀ s, c = .normal s → clean e s := by
  cases c with
  | normal s =>
    simp only [Comp.isValid, Bool.not_eq_true', any_forbidden_iff, Comp.normal.injEq]
    exact ⟨fun h s' hs => hs ▸ h, fun h => h s rfl⟩
  | _ => simp [Comp.isValid]

/-- Per-path predicate: a path is valid exactly when none of its normal components contains a
forbidden byte. -/
theorem path_valid_iff (e : Enc) (b : Bytes) :
    isValid e b = true ↔ ∀ s, Comp.normal s ∈ comps e b → clean e s := by
  unfold isValid
  rw [List.all_eq_true]
  constructor
  · intro h s hs
    exact (comp_valid_iff e _).mp (h _ hs) s rfl
  · intro h c hc
    rw [comp_valid_iff]
    intro s hs
    subst hs
    exact h s hc

/-- The `InvalidFilename` verdict of the checked operations agrees with the predicate: it is
returned only when some normal component is invalid, and never for a list of valid components. -/
theorem invalid_verdict_sound (e : Enc) : ∀ (cs : List Comp) (n : Nat),
    checkedScan e n cs = some .invalidFilename → ∃ c ∈ cs, c.isValid e = false := by
  intro cs
  induction cs with
  | nil => intro n h; simp [checkedScan] at h
  | cons c cs ih =>
    intro n h
    cases c with
    | pfx p => simp [checkedScan] at h
    | root => simp [checkedScan] at h
    | cur =>
      simp only [checkedScan] at h
      obtain ⟨c', hc', hv⟩ := ih n h
      exact ⟨c', by simp [hc'], hv⟩
    | parent =>
      simp only [checkedScan] at h
      split at h
      · cases h
      · obtain ⟨c', hc', hv⟩ := ih (n - 1) h
        exact ⟨c', by simp [hc'], hv⟩
    | normal s =>
      simp only [checkedScan] at h
      split at h
      · rename_i hany
        exact ⟨.normal s, by simp, by simpa [Comp.isValid] using hany⟩
      · obtain ⟨c', hc', hv⟩ := ih (n + 1) h
        exact ⟨c', by simp [hc'], hv⟩

theorem valid_agrees_checked (e : Enc) (cur p : Bytes) (h : isValid e p = true) :
    pushChecked e cur p ≠ .error .invalidFilename := by
  unfold pushChecked
  cases hs : checkedScan e 0 (comps e p) with
  | none => simp
  | some err =>
    simp only [ne_eq, Except.error.injEq]
    intro herr
    subst herr
    obtain ⟨c, hc, hv⟩ := invalid_verdict_sound e _ 0 hs
    unfold isValid at h
    rw [List.all_eq_true] at h
    rw [h c hc] at hv
    cases hv

/-- the first invalid name is reported as such unless a prefix, root or escaping `..` comes first -/
theorem invalid_verdict_complete (e : Enc) : ∀ (cs : List Comp) (n : Nat),
    (∃ c ∈ cs, c.isValid e = false) → (checkedScan e n cs).isSome = true := by
  intro cs
  induction cs with
  | nil => intro n h; obtain ⟨c, hc, _⟩ := h; simp at hc
  | cons c cs ih =>
    intro n h
    obtain ⟨c', hc', hv⟩ := h
    rcases List.mem_cons.mp hc' with rfl | hmem
    · cases c' with
      | normal s =>
        simp only [Comp.isValid, Bool.not_eq_eq_eq_not, Bool.not_false] at hv
        simp only [checkedScan, hv, if_true]
        rfl
      | _ => simp [Comp.isValid] at hv
    · cases c with
      | pfx p => simp [checkedScan]
      | root => simp [checkedScan]
      | cur => simp only [checkedScan]; exact ih n ⟨c', hmem, hv⟩
      | parent =>
        simp only [checkedScan]
        split
        · rfl
        · exact ih (n - 1) ⟨c', hmem, hv⟩
      | normal s =>
        simp only [checkedScan]
        split
        · rfl
        · exact ih (n + 1) ⟨c', hmem, hv⟩

/-! ### Non-vacuity -/

example : isValid .windows [67, 58, 92, 97, 124, 98] = false := by
  unfold isValid; rw [C03.comps_new_closed]; decide
example : isValid .unix [97, 124, 98] = true := by
  unfold isValid; rw [C03.comps_new_closed]; decide
example : clean .windows [97, 98] := by unfold clean docSet windowsDoc; decide

end TP.C17
