/-
Props/C19b.lean — the part of C19 that is logic: `to_str` and the lossy / `Display` output.

The crate's `Path::to_str` is `core::str::from_utf8(bytes).ok()`, `to_string_lossy` and `Display` are
`String::from_utf8_lossy(bytes)`.  In the model: `toStr b = some b` iff `Utf8.validB b`, and
`display b = Utf8.lossy b` (Spec/Lossy.lean, the standard lossy decoding).  The harness compares both
with the crate on every run (`lossy` lines) and the crate with real `from_utf8_lossy`.

Proved for every byte string:
* `toStr_some_iff`, `toStr_eq`        — `to_str` is `Some` exactly for valid UTF-8, and then it is the input;
* `lossy_valid`                        — the lossy output is always valid UTF-8;
* `lossy_of_valid`, `lossy_eq_self_iff` — it equals the input exactly when the input is valid UTF-8
                                          (so `Display` of a UTF-8 path shows the path);
* `lossy_idempotent`;
* `replCount_zero_iff`                 — no U+FFFD is inserted exactly for valid input;
* `lossy_ascii`                        — the ASCII bytes of the output are the ASCII bytes of the input, in
                                          order: no separator, dot, colon or letter is added, lost or moved;
* `lossy_length_le`, `lossy_length_ge`  — the output is at most three times as long as the input and never shorter.
-/
import TypedPathVerif.Spec.Lossy
import TypedPathVerif.Lemmas.Utf8

namespace TP.C19

open TP TP.Utf8

theorem toStr_some_iff (b : Bytes) : (toStr b).isSome = true ↔ Valid b := by
  unfold toStr
  rw [← validB_iff]
  split <;> simp_all

theorem toStr_eq (b s : Bytes) (h : toStr b = some s) : s = b := by
  unfold toStr at h
  split at h
  · cases h; rfl
  · cases h

theorem valid_REPL_append {x : Bytes} (h : Valid x) : Valid (REPL ++ x) :=
  Valid.three 0xEF 0xBF 0xBD x (by decide) (by decide) h

/-- the lossy output is always valid UTF-8 -/
theorem lossy_valid (b : Bytes) : Valid (lossy b) := by
  fun_induction lossy b with
  | case1 => exact Valid.nil
  | case2 b0 r h ih => exact Valid.ascii _ _ h ih
  | case3 b0 hna => exact valid_REPL_append Valid.nil
  | case4 b0 hna b1 r1 h0 h1 ih => exact Valid.two _ _ _ h0 h1 ih
  | case5 b0 hna b1 r1 h0 h1 ih => exact valid_REPL_append ih
  | case6 b0 hna b1 h0 h3 => exact valid_REPL_append Valid.nil
  | case7 b0 hna b1 h0 h3 b2 r2 h2 ih => exact Valid.three _ _ _ _ h3 h2 ih
  | case8 b0 hna b1 h0 h3 b2 r2 h2 ih => exact valid_REPL_append ih
  | case9 b0 hna b1 h0 h3 h4 => exact valid_REPL_append Valid.nil
  | case10 b0 hna b1 h0 h3 h4 b2 h2 => exact valid_REPL_append Valid.nil
  | case11 b0 hna b1 h0 h3 h4 b2 h2 b3 r3 h5 ih => exact Valid.four _ _ _ _ _ h4 h2 h5 ih
  | case12 b0 hna b1 h0 h3 h4 b2 h2 b3 r3 h5 ih => exact valid_REPL_append ih
  | case13 b0 hna b1 h0 h3 h4 b2 r2 h2 ih => exact valid_REPL_append ih
  | case14 b0 hna b1 r1 h0 h3 h4 ih => exact valid_REPL_append ih

theorem lead2_false_of_ok3 {b0 b1 : UInt8} (h : ok3 b0 b1 = true) : lead2 b0 = false := by
  simp only [ok3, lead2, isCont, Bool.or_eq_true, Bool.and_eq_true, decide_eq_true_eq, Bool.and_eq_false_iff,
    decide_eq_false_iff_not, UInt8.le_iff_toNat_le, ← UInt8.toNat_inj] at *
  simp at *
  omega

theorem lead2_false_of_ok4 {b0 b1 : UInt8} (h : ok4 b0 b1 = true) : lead2 b0 = false := by
  simp only [ok4, lead2, isCont, Bool.or_eq_true, Bool.and_eq_true, decide_eq_true_eq, Bool.and_eq_false_iff,
    decide_eq_false_iff_not, UInt8.le_iff_toNat_le, ← UInt8.toNat_inj] at *
  simp at *
  omega

theorem ok3_false_of_ok4 {b0 b1 : UInt8} (h : ok4 b0 b1 = true) : ok3 b0 b1 = false := by
  cases h3 : ok3 b0 b1 with
  | false => rfl
  | true =>
    simp only [ok3, ok4, isCont, Bool.or_eq_true, Bool.and_eq_true, decide_eq_true_eq,
      UInt8.le_iff_toNat_le, ← UInt8.toNat_inj] at *
    simp at *
    omega

/-- valid UTF-8 is decoded to itself: `Display` of a UTF-8 path shows the path -/
theorem lossy_of_valid {b : Bytes} (h : Valid b) : lossy b = b := by
  induction h with
  | nil => rw [lossy.eq_def]
  | ascii x r hx _ ih => rw [lossy.eq_def]; simp [hx, ih]
  | two b0 b1 r h0 h1 _ ih => rw [lossy.eq_def]; simp [not_ascii_lead2 h0, h0, h1, ih]
  | three b0 b1 b2 r h0 h2 _ ih =>
    rw [lossy.eq_def]; simp [(not_ascii_ok3 h0).1, lead2_false_of_ok3 h0, h0, h2, ih]
  | four b0 b1 b2 b3 r h0 h2 h3 _ ih =>
    rw [lossy.eq_def]; simp [(not_ascii_ok4 h0).1, lead2_false_of_ok4 h0, ok3_false_of_ok4 h0, h0, h2, h3, ih]

/-- the lossy output equals the input exactly when the input is valid UTF-8 -/
theorem lossy_eq_self_iff (b : Bytes) : lossy b = b ↔ Valid b :=
  ⟨fun h => h ▸ lossy_valid b, lossy_of_valid⟩

theorem lossy_idempotent (b : Bytes) : lossy (lossy b) = lossy b := lossy_of_valid (lossy_valid b)

/-- `to_str` and the lossy output agree whenever `to_str` answers -/
theorem toStr_eq_display (b s : Bytes) (h : toStr b = some s) : display b = s := by
  have hs := toStr_eq b s h
  subst hs
  exact lossy_of_valid ((toStr_some_iff s).mp (by rw [h]; rfl))

theorem filter_REPL_append (x : Bytes) : (REPL ++ x).filter isAscii = x.filter isAscii := by
  simp [REPL, List.filter, isAscii]

/-- the ASCII bytes of the output are those of the input, in order: decoding never adds, drops or moves
a separator, a dot, a colon or a letter -/
theorem lossy_ascii (b : Bytes) : (lossy b).filter isAscii = b.filter isAscii := by
  fun_induction lossy b with
  | case1 => rfl
  | case2 b0 r h ih => simp [List.filter, h, ih]
  | case3 b0 hna => rw [← List.append_nil REPL, filter_REPL_append]; simp [List.filter, hna]
  | case4 b0 hna b1 r1 h0 h1 ih => simp [List.filter, hna, le_of_cont h1, ih]
  | case5 b0 hna b1 r1 h0 h1 ih => rw [filter_REPL_append, ih]; simp [List.filter, hna]
  | case6 b0 hna b1 h0 h3 => rw [← List.append_nil REPL, filter_REPL_append]; simp [List.filter, hna, (not_ascii_ok3 h3).2]
  | case7 b0 hna b1 h0 h3 b2 r2 h2 ih => simp [List.filter, hna, (not_ascii_ok3 h3).2, le_of_cont h2, ih]
  | case8 b0 hna b1 h0 h3 b2 r2 h2 ih => rw [filter_REPL_append, ih]; simp [List.filter, hna, (not_ascii_ok3 h3).2]
  | case9 b0 hna b1 h0 h3 h4 => rw [← List.append_nil REPL, filter_REPL_append]; simp [List.filter, hna, (not_ascii_ok4 h4).2]
  | case10 b0 hna b1 h0 h3 h4 b2 h2 =>
    rw [← List.append_nil REPL, filter_REPL_append]; simp [List.filter, hna, (not_ascii_ok4 h4).2, le_of_cont h2]
  | case11 b0 hna b1 h0 h3 h4 b2 h2 b3 r3 h5 ih =>
    simp [List.filter, hna, (not_ascii_ok4 h4).2, le_of_cont h2, le_of_cont h5, ih]
  | case12 b0 hna b1 h0 h3 h4 b2 h2 b3 r3 h5 ih =>
    rw [filter_REPL_append, ih]; simp [List.filter, hna, (not_ascii_ok4 h4).2, le_of_cont h2]
  | case13 b0 hna b1 h0 h3 h4 b2 r2 h2 ih =>
    rw [filter_REPL_append, ih]; simp [List.filter, hna, (not_ascii_ok4 h4).2]
  | case14 b0 hna b1 r1 h0 h3 h4 ih => rw [filter_REPL_append, ih]; simp [List.filter, hna]

/-- a replacement character (three bytes) stands for at least one input byte -/
theorem lossy_length_le (b : Bytes) : (lossy b).length ≤ 3 * b.length := by
  fun_induction lossy b <;> simp [REPL] at * <;> omega

/-- … and is never shorter than what it replaces: no byte of the path is dropped without a trace -/
theorem lossy_length_ge (b : Bytes) : b.length ≤ (lossy b).length := by
  fun_induction lossy b <;> simp [REPL] at * <;> omega

/-- no replacement character is inserted exactly for valid input -/
theorem replCount_zero_iff (b : Bytes) : replCount b = 0 ↔ Valid b := by
  constructor
  · fun_induction replCount b with
    | case1 => intro _; exact Valid.nil
    | case2 b0 r h ih => intro h'; exact Valid.ascii _ _ h (ih h')
    | case3 b0 hna => intro h'; cases h'
    | case4 b0 hna b1 r1 h0 h1 ih => intro h'; exact Valid.two _ _ _ h0 h1 (ih h')
    | case5 b0 hna b1 r1 h0 h1 ih => intro h'; omega
    | case6 b0 hna b1 h0 h3 => intro h'; cases h'
    | case7 b0 hna b1 h0 h3 b2 r2 h2 ih => intro h'; exact Valid.three _ _ _ _ h3 h2 (ih h')
    | case8 b0 hna b1 h0 h3 b2 r2 h2 ih => intro h'; omega
    | case9 b0 hna b1 h0 h3 h4 => intro h'; cases h'
    | case10 b0 hna b1 h0 h3 h4 b2 h2 => intro h'; cases h'
    | case11 b0 hna b1 h0 h3 h4 b2 h2 b3 r3 h5 ih => intro h'; exact Valid.four _ _ _ _ _ h4 h2 h5 (ih h')
    | case12 b0 hna b1 h0 h3 h4 b2 h2 b3 r3 h5 ih => intro h'; omega
    | case13 b0 hna b1 h0 h3 h4 b2 r2 h2 ih => intro h'; omega
    | case14 b0 hna b1 r1 h0 h3 h4 ih => intro h'; omega
  · intro h
    induction h with
    | nil => rw [replCount.eq_def]
    | ascii x r hx _ ih => rw [replCount.eq_def]; simp [hx, ih]
    | two b0 b1 r h0 h1 _ ih => rw [replCount.eq_def]; simp [not_ascii_lead2 h0, h0, h1, ih]
    | three b0 b1 b2 r h0 h2 _ ih =>
      rw [replCount.eq_def]; simp [(not_ascii_ok3 h0).1, lead2_false_of_ok3 h0, h0, h2, ih]
    | four b0 b1 b2 b3 r h0 h2 h3 _ ih =>
      rw [replCount.eq_def]; simp [(not_ascii_ok4 h0).1, lead2_false_of_ok4 h0, ok3_false_of_ok4 h0, h0, h2, h3, ih]

/-! ### non-vacuity: the documented shapes -/

-- "a/é" is shown as it is
example : display [0x61, 0x2F, 0xC3, 0xA9] = [0x61, 0x2F, 0xC3, 0xA9] :=
  lossy_of_valid (Valid.ascii _ _ (by decide) (Valid.ascii _ _ (by decide) (Valid.two _ _ _ (by decide) (by decide) Valid.nil)))
-- a lone continuation byte, a truncated three-byte form at the end and in the middle
example : display [0x80] = REPL := by simp [display, lossy, isAscii]
example : display [0x61, 0xE2, 0x82] = 0x61 :: REPL := by
  simp [display, lossy, isAscii, lead2, ok3, isCont, REPL]
example : display [0xE2, 0x82, 0x2F] = REPL ++ [0x2F] := by
  simp [display, lossy, isAscii, lead2, ok3, isCont, REPL]
example : toStr [0x61, 0xFF] = none := by decide
example : toStr [0x61, 0x2F] = some [0x61, 0x2F] := by decide

end TP.C19
