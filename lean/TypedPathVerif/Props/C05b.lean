/-
Props/C05b.lean — C05 continued: the byte-index loop of `Encoding::hash` IS the component-level
description `HashSpec`.

`hash_loop_eq_spec`: for every byte string and both encodings, the sequence of `Hasher::write`
chunks produced by the model of the Rust loop (`Model/Path.lean: hashChunks`, the `for i in
0..len` loop with `component_start`, the skip of a `.` after a separator, the final slice and
`write_usize`) equals `HashSpec.hashSpec`: the derived hash of the parsed prefix, the text of every
component except prefix and root, and the number of bytes written.

Hence `eq_implies_same_loop_hash`: equal paths feed identical `write` sequences to any hasher —
now a statement about the loop itself, not only about the specification.
-/
import TypedPathVerif.Lemmas.HashLoop
import TypedPathVerif.Lemmas.CombWin
import TypedPathVerif.Props.C05
import TypedPathVerif.Props.C08

namespace TP.C05b

open TP TP.HashLoop TP.C05

theorem bytes_segComp (e : Enc) (c : Bool) (s : Bytes) : (segComp c s).bytes e = s := by
  unfold segComp
  split
  · rename_i h; rw [h]; rfl
  · split
    · rename_i h; rw [h.1]; rfl
    · rfl

theorem hashTexts_segComp (e : Enc) (c : Bool) (s : Bytes) (rest : List Comp) :
    hashTexts e (segComp c s :: rest) = s :: hashTexts e rest := by
  have hb := bytes_segComp e c s
  unfold segComp at hb ⊢
  split
  · simp only [hashTexts]; rename_i h; rw [h]; rfl
  · split
    · simp only [hashTexts]; rename_i h; rw [h.1]; rfl
    · simp only [hashTexts, Comp.bytes]

/-- the texts of the components after the first are the token texts -/
theorem hashTexts_body (e : Enc) (k : Bool) {isSep : UInt8 → Bool} :
    ∀ (r : List Tok), WFToks isSep r → ∀ (a : Bool), (a = false → notSegHead r) →
      hashTexts e (body k r) = tokTexts (!k) a r := by
  intro r
  induction r with
  | nil => intro _ a _; rfl
  | cons t r ih =>
    intro hw a ha
    have hwr := WFToks_tail hw
    cases t with
    | sep x =>
      rw [body_cons_junk r (by rfl)]
      simp only [tokTexts]
      exact ih hwr true (fun h => by cases h)
    | seg s =>
      have hat : a = true := by
        cases a with
        | true => rfl
        | false => exact absurd (ha rfl) (by simp [notSegHead])
      subst hat
      have hns : notSegHead r := hw.2.2.1
      by_cases hj : junk k (.seg s) = true
      · rw [body_cons_junk r hj]
        have hjs : (!k && true && (s == [DOT])) = true := by
          simp only [junk, Bool.and_eq_true, Bool.not_eq_true', decide_eq_true_eq] at hj
          simp [hj.1, hj.2, CUR]
        simp only [tokTexts, hjs, if_true, List.nil_append]
        exact ih hwr false (fun _ => hns)
      · have hj' : junk k (.seg s) = false := by simpa using hj
        rw [body_cons_seg r hj', hashTexts_segComp]
        have hjs : (!k && true && (s == [DOT])) = false := by
          simp only [junk, Bool.and_eq_false_imp, Bool.not_eq_true', decide_eq_false_iff_not] at hj'
          cases k with
          | true => rfl
          | false =>
            have := hj' rfl
            simp only [Bool.not_false, Bool.and_self, Bool.true_and, beq_eq_false_iff_ne, ne_eq]
            exact this
        simp only [tokTexts, hjs, Bool.false_eq_true, if_false, List.singleton_append]
        rw [ih hwr false (fun _ => hns)]

/-- the texts of all components of a token list at the beginning -/
theorem hashTexts_compsT (e : Enc) (k : Bool) {isSep : UInt8 → Bool} (ts : List Tok) (hw : WFToks isSep ts) :
    hashTexts e (compsT k true ts) = tokTexts (!k) false ts := by
  cases ts with
  | nil => rfl
  | cons t r =>
    rw [compsT_true_cons]
    have hwr := WFToks_tail hw
    cases t with
    | sep x =>
      simp only [headComp, hashTexts, tokTexts]
      exact hashTexts_body e k r hwr true (fun h => by cases h)
    | seg s =>
      simp only [headComp, tokTexts, Bool.and_false, Bool.false_and, Bool.false_eq_true, if_false,
        List.singleton_append]
      rw [hashTexts_segComp, hashTexts_body e k r hwr false (fun _ => hw.2.2.1)]

theorem hashTexts_pfx (e : Enc) (p : PrefixComp) (rest : List Comp) :
    hashTexts e (.pfx p :: rest) = hashTexts e rest := rfl

/-- **The hash loop equals its component-level specification**, all inputs, both encodings. -/
theorem hash_loop_eq_spec (e : Enc) (b : Bytes) : hashChunks e b = hashSpec e b := by
  cases e with
  | unix =>
    unfold hashChunks hashSpec
    simp only
    rw [hashBody_toks usep true usep b [] (by decide) (fun _ _ => rfl), unix_comps_eq,
      hashTexts_compsT .unix false (toks usep b) (WFToks_toks usep b)]
    have hp : hashPrefix (compsT false true (toks usep b)) = [] := by
      cases toks usep b with
      | nil => rfl
      | cons t r =>
        rw [compsT_true_cons]
        cases t with
        | sep x => rfl
        | seg s => simp only [headComp, segComp]; split <;> (try split) <;> rfl
    rw [hp]
    rfl
  | windows =>
    unfold hashChunks hashSpec
    simp only
    rw [C03.comps_new_closed]
    rcases C08.new_windows_cases b with ⟨hnone, hnew⟩ | ⟨p, rest, hsome, hraw, hnew⟩
    · -- no prefix: the path cannot start with `\\?\`
      have hwp : wPrefix b = none := by
        rw [C08.wPrefix_eq]; unfold JoinRules.prefixOf; rw [hnone]; rfl
      have hnv : startsWith b VERB = false := by
        cases hv : startsWith b VERB with
        | false => rfl
        | true =>
          have := C08.verb_has_prefix b hv
          unfold JoinRules.prefixOf at this
          rw [hnone] at this; cases this
      rw [hwp, hnew, hnv]
      simp only [Bool.not_false, Bool.not_true, List.nil_append]
      rw [hashBody_toks (wsep true) true anySep b [] (Comb.Windows.dot_not_wsep true) (fun _ _ => rfl),
        hashTexts_compsT .windows false (toks (wsep true) b) (WFToks_toks _ b)]
      have hp : hashPrefix (compsT false true (toks (wsep true) b)) = [] := by
        cases toks (wsep true) b with
        | nil => rfl
        | cons t r =>
          rw [compsT_true_cons]
          cases t with
          | sep x => rfl
          | seg s => simp only [headComp, segComp]; split <;> (try split) <;> rfl
      rw [hp]
      rfl
    · have hwp : wPrefix b = some p := by
        rw [C08.wPrefix_eq]; unfold JoinRules.prefixOf; rw [hsome]; rfl
      have hdrop : b.drop p.raw.length = rest := by
        rw [← hraw]; simp
      rw [hwp, hnew]
      simp only [hdrop, List.singleton_append, hashPrefix, hashTexts_pfx]
      have hsame : (!startsWith b VERB) = true → ∀ y, anySep y = wsep (!startsWith b VERB) y := by
        intro h y; rw [h]; rfl
      rw [hashBody_toks (wsep (!startsWith b VERB)) (!startsWith b VERB) anySep rest p.kind.hashChunks
          (Comb.Windows.dot_not_wsep _) hsame,
        hashTexts_compsT .windows (!(!startsWith b VERB)) (toks (wsep (!startsWith b VERB)) rest) (WFToks_toks _ rest)]
      simp only [Bool.not_not]
      rfl

/-- Equal paths feed identical data — the same sequence of `write` calls — to any hasher: stated
for the modelled Rust loop itself. -/
theorem eq_implies_same_loop_hash (e : Enc) (a b : Bytes) (h : pathEq e a b = true) :
    hashChunks e a = hashChunks e b := by
  rw [hash_loop_eq_spec, hash_loop_eq_spec]
  exact eq_implies_same_hash e a b h

/-! ### non-vacuity -/

example : hashChunks .unix [47, 97, 47, 46, 47, 98] = [[97], [98], usizeChunk 2] := by decide
example : hashChunks .unix [46, 47, 97] = [[46], [97], usizeChunk 2] := by decide
example : pathEq .unix [97, 47, 47, 98, 47, 46] [97, 47, 98] = true := by
  unfold pathEq; rw [C03.comps_new_closed, C03.comps_new_closed]; decide

end TP.C05b
