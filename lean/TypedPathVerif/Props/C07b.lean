/-
Props/C07b.lean — C07 continued: the derived forms `extend`, `collect` (`FromIterator`) and `join`.

The crate implements `Extend` / `FromIterator` for its buffers as repeated `push`, and `join` as
`to_path_buf` + `push`; so does std.  The harness checks that reading of the code on every run
(`extend-collect-is-repeated-push`, with fused, non-fused and inexactly sized iterators; `join` in the
transcripts).  Here the consequence for all item lists: after extending related buffers by the same
items the buffers are still related (component-equal), and byte-identical as soon as the last item is
non-empty; a collected buffer is related to std's collected buffer.
-/
import TypedPathVerif.Props.C07

namespace TP.C07b

open TP TP.C07 StdBuf

/-- `Extend::extend`: push every item -/
def extendM (m : Bytes) (items : List Bytes) : Bytes := items.foldl unixPush m
/-- std's `Extend::extend` -/
def extendS (s : Bytes) (items : List Bytes) : Bytes := items.foldl stdPush s

/-- extending keeps the relation -/
theorem extend_refines : ∀ (items : List Bytes) (m s : Bytes), I m s → I (extendM m items) (extendS s items)
  | [], _, _, h => h
  | p :: ps, m, s, h => by
    simp only [extendM, extendS, List.foldl_cons]
    exact extend_refines ps _ _ (push_step m s p h).1

/-- … hence the buffers have the same components after every `extend` -/
theorem extend_comps (items : List Bytes) (m s : Bytes) (h : I m s) :
    comps .unix (extendS s items) = comps .unix (extendM m items) :=
  I_comps_eq _ _ (extend_refines items m s h)

/-- … and the same bytes when the last item is not empty -/
theorem extend_bytes (items : List Bytes) (p : Bytes) (m s : Bytes) (h : I m s) (hp : p ≠ []) :
    extendS s (items ++ [p]) = extendM m (items ++ [p]) := by
  simp only [extendM, extendS, List.foldl_append, List.foldl_cons, List.foldl_nil]
  exact (push_step _ _ p (extend_refines items m s h)).2 hp

/-- `FromIterator`: start from the empty buffer -/
theorem collect_refines (items : List Bytes) : I (extendM [] items) (extendS [] items) :=
  extend_refines items [] [] (Or.inl rfl)

/-- `join` is `push` on a copy: related receivers give related results -/
theorem join_refines (m s p : Bytes) (h : I m s) : I (unixPush m p) (stdPush s p) := (push_step m s p h).1

/-! ### Non-vacuity -/

example : extendS [97] [[], [98], []] = [97, 47, 98, 47] ∧ extendM [97] [[], [98], []] = [97, 47, 98] := by decide
example : extendS [] [[47, 97], [98, 46, 99]] = extendM [] [[47, 97], [98, 46, 99]] := by decide

end TP.C07b
