/-
Props/C04d.lean — checked join keeps a verbatim-prefixed base whose prefix is stable but incomplete.

`C04c.win_checked_keeps_base_verbatim` asks for a complete prefix; it uses completeness only through
`C08c.win_push_comps_verbatim`.  With `C08e.win_push_comps_verbatim_of_stable` the same statement holds for every
*stable* verbatim prefix, in particular for `\\?\UNC\server\` (empty share, the separator inside the prefix) — the base
of seed C04r10, where a changed `push` let the first name of the untrusted argument become the share of the prefix.

* `win_checked_keeps_base_verbatim_of_stable`
* `win_checked_keeps_base_noshare` — for `a = \\?\UNC\server\` (followed by nothing or a separator): if
  `push_checked a q` succeeds, the result's components are `a`'s (root written out) followed by the names of `q` that
  survive its own `..`, and the result still has the prefix `VerbatimUNC(server, "")` — no name of `q` moved into it.
-/
import TypedPathVerif.Props.C04c
import TypedPathVerif.Props.C08e

namespace TP.C04d

open TP TP.JoinRules TP.Win TP.C08c TP.C04c

theorem win_checked_keeps_base_verbatim_of_stable (a q r rest : Bytes) (p : PrefixComp)
    (hpa : parsePrefixComp a = some (p, rest)) (hs : Stable p) (hro : RestOK p rest) (hv : isVerbatimKind p.kind = true)
    (hrest : HeadOK (wsep (normOf p.raw)) rest) (hqne : q ≠ [])
    (h : pushChecked .windows a q = .ok r) :
    comps .windows r =
      withRoot (comps .windows a ++ (C11b.nameFold [] (comps .windows q)).map Comp.normal) ∧
    (∀ s ∈ C11b.nameFold [] (comps .windows q), Comp.normal s ∈ comps .windows q) ∧
    ∃ rest', parsePrefixComp r = some (p, rest') := by
  obtain ⟨hacc, hr⟩ := (C04.checked_accepts_iff .windows a q r).mp h
  obtain ⟨hq, hrel⟩ := C04b.accepted_prefix_free q hacc
  obtain ⟨h1, _, rest', _, h3⟩ := C08e.win_push_comps_verbatim_of_stable a q rest p hpa hs hro hv hrest hqne hq hrel
  rw [hr]
  have hinc := arg_incoming (normOf p.raw) q hq hrel
  have hform : ∀ c ∈ comps .windows q, c = .cur ∨ c = .parent ∨ ∃ s, c = .normal s := by
    intro c hc'
    rcases hinc c hc' with h' | h' | ⟨s, h', _⟩
    · exact Or.inl h'
    · exact Or.inr (Or.inl h')
    · exact Or.inr (Or.inr ⟨s, h'⟩)
  have hfold := fold_neverClimbs (comps .windows q) [] (comps .windows a) (by simpa using hacc.2) hform
  simp only [List.map_nil, List.append_nil] at hfold
  refine ⟨by rw [h1, hfold], ?_, rest', h3⟩
  intro s hs
  rcases C11b.nameFold_subset _ [] s hs with h' | h'
  · simp at h'
  · exact h'

/-- **Checked join onto `\\?\UNC\server\`** keeps the base: same prefix, empty share, nothing of `q` inside it -/
theorem win_checked_keeps_base_noshare (a q r rest sv : Bytes) (p : PrefixComp)
    (hpa : parsePrefixComp a = some (p, rest)) (hk : p.kind = .verbatimUNC sv [])
    (hlen : p.raw.length = 8 + sv.length + 1)
    (hrest : HeadOK (wsep (normOf p.raw)) rest) (hqne : q ≠ [])
    (h : pushChecked .windows a q = .ok r) :
    comps .windows r =
      withRoot (comps .windows a ++ (C11b.nameFold [] (comps .windows q)).map Comp.normal) ∧
    (∀ s ∈ C11b.nameFold [] (comps .windows q), Comp.normal s ∈ comps .windows q) ∧
    ∃ rest', parsePrefixComp r = some (p, rest') :=
  win_checked_keeps_base_verbatim_of_stable a q r rest p hpa (stable_verbatimUNC_noshare_sep hpa hk hlen)
    (C08e.restOK_noshare hpa hk) (by rw [hk]; rfl) hrest hqne h

end TP.C04d
