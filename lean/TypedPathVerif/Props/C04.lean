/-
Props/C04.lean — Checked join never escapes, replaces or re-roots the base path.

Both encodings: the acceptance rule in declarative form (`checked_accepts_iff`,
`neverClimbs_iff_counts`), the error kind (`checked_error_first`), success = unchecked join
(`checked_ok_eq_push`).  Unix: the result's components are the base's followed by the
argument's (`unix_checked_keeps_base`).  The corresponding Windows clause is *not* proved: it
is false at the known finding K3 (`\\` + `srv`) and needs the Windows append lemma elsewhere;
it is decided by the oracle on every run.
-/
import TypedPathVerif.Lemmas.Append
import TypedPathVerif.Props.C17

namespace TP.C04

open TP

def normals : List Comp → Nat
  | [] => 0
  | .normal _ :: r => normals r + 1
  | _ :: r => normals r

def parents : List Comp → Nat
  | [] => 0
  | .parent :: r => parents r + 1
  | _ :: r => parents r

/-- no `..` outnumbers the normal components before it (with `n` names of credit) -/
def neverClimbs : Nat → List Comp → Prop
  | _, [] => True
  | n, .parent :: cs => 0 < n ∧ neverClimbs (n - 1) cs
  | n, .normal _ :: cs => neverClimbs (n + 1) cs
  | n, _ :: cs => neverClimbs n cs

/-- the same, said with counts: in every initial segment the `..` never outnumber the names -/
theorem neverClimbs_iff_counts : ∀ (cs : List Comp) (n : Nat),
    neverClimbs n cs ↔ ∀ i, i ≤ cs.length → parents (cs.take i) ≤ n + normals (cs.take i) := by
  intro cs
  induction cs with
  | nil => intro n; simp [neverClimbs, parents, normals]
  | cons c cs ih =>
    intro n
    cases c with
    | parent =>
      simp only [neverClimbs, ih]
      constructor
      · intro ⟨hn, h⟩ i hi
        cases i with
        | zero => simp [parents, normals]
        | succ j =>
          have := h j (by simpa using hi)
          simp only [List.take_succ_cons, parents, normals]
          omega
      · intro h
        have h1 := h 1 (by simp)
        simp only [List.take_succ_cons, List.take_zero, parents, normals] at h1
        refine ⟨by omega, ?_⟩
        intro j hj
        have := h (j + 1) (by simpa using hj)
        simp only [List.take_succ_cons, parents, normals] at this
        omega
    | normal s =>
      simp only [neverClimbs, ih]
      constructor
      · intro h i hi
        cases i with
        | zero => simp [parents, normals]
        | succ j =>
          have := h j (by simpa using hi)
          simp only [List.take_succ_cons, parents, normals]
          omega
      · intro h j hj
        have := h (j + 1) (by simpa using hj)
        simp only [List.take_succ_cons, parents, normals] at this
        omega
    | pfx p =>
      simp only [neverClimbs, ih]
      constructor
      · intro h i hi
        cases i with
        | zero => simp [parents, normals]
        | succ j => simpa [List.take_succ_cons, parents, normals] using h j (by simpa using hi)
      · intro h j hj
        simpa [List.take_succ_cons, parents, normals] using h (j + 1) (by simpa using hj)
    | root =>
      simp only [neverClimbs, ih]
      constructor
      · intro h i hi
        cases i with
        | zero => simp [parents, normals]
        | succ j => simpa [List.take_succ_cons, parents, normals] using h j (by simpa using hi)
      · intro h j hj
        simpa [List.take_succ_cons, parents, normals] using h (j + 1) (by simpa using hj)
    | cur =>
      simp only [neverClimbs, ih]
      constructor
      · intro h i hi
        cases i with
        | zero => simp [parents, normals]
        | succ j => simpa [List.take_succ_cons, parents, normals] using h j (by simpa using hi)
      · intro h j hj
        simpa [List.take_succ_cons, parents, normals] using h (j + 1) (by simpa using hj)

/-- every component is acceptable on its own: no prefix, no root, no invalid name -/
def allPlain (e : Enc) (cs : List Comp) : Prop :=
  ∀ c ∈ cs, c.isPfx = false ∧ c ≠ .root ∧ c.isValid e = true

theorem allPlain_cons (e : Enc) (c : Comp) (cs : List Comp) :
    allPlain e (c :: cs) ↔ (c.isPfx = false ∧ c ≠ .root ∧ c.isValid e = true) ∧ allPlain e cs := by
  simp [allPlain]

/-- The scan accepts exactly when `p` has no prefix, no root, no normal component with a
forbidden byte, and no `..` that outnumbers the normal components before it. -/
theorem scan_none_iff (e : Enc) : ∀ (cs : List Comp) (n : Nat),
    checkedScan e n cs = none ↔ allPlain e cs ∧ neverClimbs n cs := by
  intro cs
  induction cs with
  | nil => intro n; simp [checkedScan, allPlain, neverClimbs]
  | cons c cs ih =>
    intro n
    rw [allPlain_cons]
    cases c with
    | pfx p =>
      simp only [checkedScan]
      constructor
      · intro h; cases h
      · intro ⟨⟨⟨h, _, _⟩, _⟩, _⟩; simp [Comp.isPfx] at h
    | root =>
      simp only [checkedScan]
      constructor
      · intro h; cases h
      · intro ⟨⟨⟨_, h, _⟩, _⟩, _⟩; exact absurd rfl h
    | cur =>
      simp only [checkedScan, neverClimbs]
      rw [ih]
      constructor
      · intro ⟨ha, hc⟩; exact ⟨⟨⟨rfl, by simp, rfl⟩, ha⟩, hc⟩
      · intro ⟨⟨_, ha⟩, hc⟩; exact ⟨ha, hc⟩
    | parent =>
      simp only [checkedScan, neverClimbs]
      by_cases hn : n = 0
      · simp only [hn, if_true]
        constructor
        · intro h; cases h
        · intro ⟨_, h, _⟩; exact absurd h (by simp)
      · simp only [hn, if_false]
        rw [ih]
        constructor
        · intro ⟨ha, hc⟩; exact ⟨⟨⟨rfl, by simp, rfl⟩, ha⟩, Nat.pos_of_ne_zero hn, hc⟩
        · intro ⟨⟨_, ha⟩, _, hc⟩; exact ⟨ha, hc⟩
    | normal s =>
      simp only [checkedScan, neverClimbs]
      by_cases hany : (s.any fun b => (forbidden e).contains b) = true
      · simp only [hany, if_true]
        constructor
        · intro h; cases h
        · intro ⟨⟨⟨_, _, hv⟩, _⟩, _⟩
          simp only [Comp.isValid, hany, Bool.not_true] at hv
          cases hv
      · simp only [hany, Bool.false_eq_true, if_false]
        rw [ih]
        have hv : Comp.isValid e (.normal s) = true := by
          have : (s.any fun b => (forbidden e).contains b) = false := by simpa using hany
          simp only [Comp.isValid, this, Bool.not_false]
        constructor
        · intro ⟨ha, hc⟩; exact ⟨⟨⟨rfl, by simp, hv⟩, ha⟩, hc⟩
        · intro ⟨⟨_, ha⟩, hc⟩; exact ⟨ha, hc⟩

/-- It succeeds exactly when the argument is acceptable, and then the result is the
unchecked join. -/
theorem checked_accepts_iff (e : Enc) (cur p r : Bytes) :
    pushChecked e cur p = .ok r ↔
      (allPlain e (comps e p) ∧ neverClimbs 0 (comps e p)) ∧ r = push e cur p := by
  unfold pushChecked
  cases hs : checkedScan e 0 (comps e p) with
  | none =>
    have := (scan_none_iff e _ 0).mp hs
    simp only [Except.ok.injEq]
    constructor
    · intro h; exact ⟨this, h.symm⟩
    · intro h; exact h.2.symm
  | some err =>
    simp only [reduceCtorEq, false_iff, not_and]
    intro h
    have := (scan_none_iff e _ 0).mpr h
    rw [hs] at this; cases this

theorem checked_ok_eq_push (e : Enc) (cur p r : Bytes) (h : pushChecked e cur p = .ok r) :
    r = push e cur p := ((checked_accepts_iff e cur p r).mp h).2

/-- what kind of component an error names -/
def errMatches (e : Enc) (n : Nat) (pre : List Comp) (c : Comp) : CheckedErr → Prop
  | .unexpectedPrefix => c.isPfx = true
  | .unexpectedRoot => c = .root
  | .invalidFilename => c.isNormal = true ∧ c.isValid e = false
  | .pathTraversal => c = .parent ∧ parents pre = n + normals pre

theorem parents_append (a b : List Comp) : parents (a ++ b) = parents a + parents b := by
  induction a with
  | nil => simp [parents]
  | cons c a ih => cases c <;> simp [parents, ih] <;> omega

theorem normals_append (a b : List Comp) : normals (a ++ b) = normals a + normals b := by
  induction a with
  | nil => simp [normals]
  | cons c a ih => cases c <;> simp [normals, ih] <;> omega

/-- Otherwise the error names the kind of the *first* offending component: everything before
it is acceptable, and it is a prefix / a root / an invalid name / a `..` with no name left to
cancel, according to the error. -/
theorem scan_error_first (e : Enc) : ∀ (cs : List Comp) (n : Nat) (err : CheckedErr),
    checkedScan e n cs = some err →
      ∃ pre c post, cs = pre ++ c :: post ∧ checkedScan e n pre = none ∧ errMatches e n pre c err := by
  intro cs
  induction cs with
  | nil => intro n err h; simp [checkedScan] at h
  | cons c cs ih =>
    intro n err h
    cases c with
    | pfx p =>
      simp only [checkedScan, Option.some.injEq] at h; subst h
      exact ⟨[], .pfx p, cs, rfl, rfl, by simp [errMatches, Comp.isPfx]⟩
    | root =>
      simp only [checkedScan, Option.some.injEq] at h; subst h
      exact ⟨[], .root, cs, rfl, rfl, by simp [errMatches]⟩
    | cur =>
      simp only [checkedScan] at h
      obtain ⟨pre, c', post, h1, h2, h3⟩ := ih n err h
      refine ⟨.cur :: pre, c', post, by simp [h1], by simpa [checkedScan] using h2, ?_⟩
      cases err <;> simpa [errMatches, parents, normals] using h3
    | parent =>
      simp only [checkedScan] at h
      split at h
      · rename_i hn
        simp only [Option.some.injEq] at h; subst h
        exact ⟨[], .parent, cs, rfl, rfl, by simp [errMatches, parents, normals, hn]⟩
      · rename_i hn
        obtain ⟨pre, c', post, h1, h2, h3⟩ := ih (n - 1) err h
        refine ⟨.parent :: pre, c', post, by simp [h1], by simp [checkedScan, hn, h2], ?_⟩
        cases err <;> simp only [errMatches, parents, normals] at h3 ⊢ <;> first | exact h3 | (exact ⟨h3.1, by omega⟩)
    | normal s =>
      simp only [checkedScan] at h
      split at h
      · rename_i hany
        simp only [Option.some.injEq] at h; subst h
        exact ⟨[], .normal s, cs, rfl, rfl, by simp only [errMatches, Comp.isNormal, Comp.isValid, hany, Bool.not_true, and_self]⟩
      · rename_i hany
        obtain ⟨pre, c', post, h1, h2, h3⟩ := ih (n + 1) err h
        refine ⟨.normal s :: pre, c', post, by simp [h1], by simp only [checkedScan, hany, Bool.false_eq_true, if_false, h2], ?_⟩
        cases err <;> simp only [errMatches, parents, normals] at h3 ⊢ <;> first | exact h3 | (exact ⟨h3.1, by omega⟩)

theorem checked_error_first (e : Enc) (cur p : Bytes) (err : CheckedErr)
    (h : pushChecked e cur p = .error err) :
    ∃ pre c post, comps e p = pre ++ c :: post ∧ checkedScan e 0 pre = none ∧ errMatches e 0 pre c err := by
  unfold pushChecked at h
  cases hs : checkedScan e 0 (comps e p) with
  | none => simp [hs] at h
  | some err' =>
    simp only [hs, Except.error.injEq] at h
    subst h
    exact scan_error_first e _ 0 _ hs

/-! ### Unix: the result keeps the base -/

theorem dropLeadingCur_sublist_props (e : Enc) (cs : List Comp) (n : Nat)
    (h : allPlain e cs ∧ neverClimbs n cs) :
    allPlain e (dropLeadingCur cs) ∧ neverClimbs n (dropLeadingCur cs) := by
  cases cs with
  | nil => exact h
  | cons c r =>
    cases c with
    | cur =>
      simp only [dropLeadingCur]
      exact ⟨fun c' hc' => h.1 c' (by simp [hc']), by simpa [neverClimbs] using h.2⟩
    | _ => exact h

/-- Unix: a successful checked push onto a non-empty base yields a path whose components are
exactly the base's components followed by the argument's (minus a leading `.`, which no longer
starts the path); the added components contain no root and never climb above the base. -/
theorem unix_checked_keeps_base (cur p r : Bytes) (hcur : cur ≠ [])
    (h : pushChecked .unix cur p = .ok r) :
    comps .unix r = comps .unix cur ++ dropLeadingCur (comps .unix p) ∧
    allPlain .unix (dropLeadingCur (comps .unix p)) ∧ neverClimbs 0 (dropLeadingCur (comps .unix p)) := by
  obtain ⟨hacc, hr⟩ := (checked_accepts_iff .unix cur p r).mp h
  refine ⟨?_, dropLeadingCur_sublist_props .unix _ 0 hacc⟩
  subst hr
  by_cases hp : p = []
  · subst hp
    have : comps .unix [] = [] := by rw [unix_comps_eq]; rfl
    simp [push, unixPush, this, dropLeadingCur]
  · have hrel : isAbsolute .unix p = false := by
      cases habs : isAbsolute .unix p with
      | false => rfl
      | true =>
        obtain ⟨rr, hrr⟩ := (unix_isAbsolute_iff p).mp habs
        have hc : comps .unix p = .root :: body false rr := by
          rw [unix_comps_eq, hrr, compsT_true_cons]; rfl
        have := hacc.1 .root (by rw [hc]; simp)
        exact absurd rfl this.2.1
    exact unix_push_comps cur p hp hrel hcur

/-- Unix: onto the empty base the result is the argument itself. -/
theorem unix_checked_empty_base (p r : Bytes) (h : pushChecked .unix [] p = .ok r) : r = p := by
  obtain ⟨_, hr⟩ := (checked_accepts_iff .unix [] p r).mp h
  subst hr
  simp only [push, unixPush]
  split
  · rename_i hp; exact hp.symm
  · split <;> simp

/-! ### The known finding K3 as a theorem about the model (Windows) -/

/-- K3 witness: a checked join onto `\\` (whose only component is the root) succeeds with
`\\srv`, a path whose first component is a UNC prefix — the base was *not* kept. -/
theorem windows_K3_witness :
    pushChecked .windows [92, 92] [115, 114, 118] = .ok [92, 92, 115, 114, 118] ∧
    comps .windows [92, 92] = [.root] ∧
    comps .windows [92, 92, 115, 114, 118] = [.pfx ⟨[92, 92, 115, 114, 118], .unc [115, 114, 118] []⟩] := by
  refine ⟨?_, ?_, ?_⟩
  · unfold pushChecked; rw [C03.comps_new_closed]; decide
  · rw [C03.comps_new_closed]; decide
  · rw [C03.comps_new_closed]; decide

/-! ### Non-vacuity -/

example : neverClimbs 0 [.normal [97], .parent, .normal [98]] := by simp [neverClimbs]
example : ¬ neverClimbs 0 [.cur, .parent] := by simp [neverClimbs]
example : pushChecked .unix [47, 98] [97, 47, 46, 46, 47, 99] = .ok [47, 98, 47, 97, 47, 46, 46, 47, 99] := by
  unfold pushChecked; rw [C03.comps_new_closed]; decide
example : pushChecked .unix [47, 98] [46, 47, 46, 46] = .error .pathTraversal := by
  unfold pushChecked; rw [C03.comps_new_closed]; decide

end TP.C04
