/-
Props/C13.lean — set_extension changes only the extension of the final component.

Byte-level theorem for both encodings: the buffer is cut exactly at the end of the file stem —
whatever separators or `.` segments trail the file name — and `.` + extension is appended; the
cut is followed by a dot, a separator or nothing (hence on a character boundary of any valid
UTF-8 buffer).  Without a file name: `false`, buffer untouched.
-/
import TypedPathVerif.Props.C12

namespace TP.C13

open TP

theorem segComp_normal {c : Bool} {s f : Bytes} (h : segComp c s = .normal f) : s = f := by
  unfold segComp at h
  split at h
  · cases h
  · split at h
    · cases h
    · simpa using h

theorem headComp_normal_not_junk {k : Bool} {t : Tok} {f : Bytes} (h : headComp t = .normal f) :
    junk k t = false := by
  cases t with
  | sep x => simp [headComp] at h
  | seg s =>
    have hs := segComp_normal h
    subst hs
    have hne : s ≠ CUR := by
      intro hc; subst hc; simp [headComp, segComp, CUR, PAR] at h
    cases k <;> simp [junk, hne]

/-- where the file name sits among the tokens -/
theorem fileName_tokens (e : Enc) (b f : Bytes) (h : fileName e b = some f) :
    ∃ r j, (e.new b).toks = r ++ [.seg f] ++ j ∧ (∀ t ∈ j, junk (e.new b).k t = true) ∧
      skipBack (e.new b).k (e.new b).toks = r ++ [.seg f] := by
  unfold fileName at h
  have hbeg := Enc.new_atBeg e b
  generalize e.new b = st at *
  obtain ⟨pre, ts, atBeg, k⟩ := st
  simp only at hbeg
  subst hbeg
  simp only [PState.nextBack] at h
  by_cases hne : ts = []
  · subst hne
    simp only [ne_eq, not_true_eq_false, if_false] at h
    cases pre <;> simp at h
  · simp only [ne_eq, hne, not_false_eq_true, if_true] at h
    cases hb : backT k true ts with
    | none => simp [hb] at h
    | some x =>
      obtain ⟨c, ts'⟩ := x
      simp only [hb] at h
      have hc : c = .normal f := by
        cases c <;> simp at h
        exact congrArg Comp.normal h
      subst hc
      obtain ⟨j, hj, hjunk⟩ := skipBack_split k ts
      unfold backT at hb
      simp only at hb
      split at hb
      · -- only junk: the front parser answered, never with a normal name
        rename_i hcond
        have hall := skipBack_eq_nil_iff.mp hcond.2
        cases ts with
        | nil => exact absurd rfl hne
        | cons t r =>
          rw [frontT_cons_true] at hb
          simp only [Option.map_some, Option.some.injEq, Prod.mk.injEq] at hb
          have := headComp_normal_not_junk (k := k) hb.1
          rw [hall t (by simp)] at this
          cases this
      · split at hb
        · rename_i s hlast
          simp only [Option.some.injEq, Prod.mk.injEq] at hb
          have hs : s = f := segComp_normal hb.1
          subst hs
          have ht1 := list_eq_dropLast_append hlast
          refine ⟨(skipBack k ts).dropLast, j, ?_, hjunk, ht1⟩
          simp only
          rw [← ht1]; exact hj
        · cases hb

theorem rsplitDot_stem_prefix (f : Bytes) :
    ∃ st rest, (let (b, a) := rsplitDot f; b.or a) = some st ∧ f = st ++ rest ∧
      (rest = [] ∨ rest.head? = some DOT) := by
  rcases rsplitDot_spec f with ⟨h1, _⟩ | ⟨h1, _⟩ | ⟨before, after, h1, h2, _⟩
  · exact ⟨f, [], by simp [h1], by simp, Or.inl rfl⟩
  · exact ⟨f, [], by simp [h1], by simp, Or.inl rfl⟩
  · exact ⟨before, DOT :: after, by simp [h1], h2, Or.inr rfl⟩

/-- For a path without a file name `set_extension` returns `false` and leaves the buffer
untouched. -/
theorem set_ext_false (e : Enc) (b x : Bytes) (h : fileName e b = none) :
    setExtension e b x = (b, false) := by
  simp [setExtension, h]

theorem set_ext_true_iff (e : Enc) (b x : Bytes) :
    (setExtension e b x).2 = true ↔ (fileName e b).isSome = true := by
  unfold setExtension
  cases hf : fileName e b with
  | none => simp
  | some f =>
    obtain ⟨st, rest, hst, _, _⟩ := rsplitDot_stem_prefix f
    have : fileStem e b = some st := by simp only [fileStem, hf]; exact hst
    simp [this]

/-- For a path with file name `f`: the buffer is `pre ++ f ++ junk` where `junk` consists of
separator and (when normalising) `.` tokens only; `set_extension x` returns `true` and the
new buffer is `pre ++ stem ++ "." ++ x` (nothing appended for an empty `x`) — i.e. everything
up to the end of the stem is kept byte for byte, whatever trails the file name. -/
theorem set_ext_bytes (e : Enc) (b x f : Bytes) (h : fileName e b = some f) :
    ∃ pre j st rest, b = pre ++ f ++ untoks j ∧ (∀ t ∈ j, junk (e.new b).k t = true) ∧
      fileStem e b = some st ∧ f = st ++ rest ∧ (rest = [] ∨ rest.head? = some DOT) ∧
      setExtension e b x = (pre ++ st ++ (if x = [] then [] else DOT :: x), true) := by
  obtain ⟨r, j, hts, hjunk, hsb⟩ := fileName_tokens e b f h
  obtain ⟨st, rest, hst, hf, hrest⟩ := rsplitDot_stem_prefix f
  have hstem : fileStem e b = some st := by simp only [fileStem, h]; exact hst
  have hrem := new_remaining e b
  have hcut0 : lastCompEnd e b = ((e.new b).preBytes ++ untoks r ++ f).length := by
    unfold lastCompEnd
    simp only [hsb, C09.untoks_append, untoks, Tok.bytes, List.append_nil, List.length_append]
    omega
  simp only [PState.remaining] at hrem
  rw [hts, C09.untoks_append, C09.untoks_append] at hrem
  simp only [untoks, Tok.bytes, List.append_nil] at hrem
  generalize (e.new b).preBytes = P at hrem hcut0
  have hb : b = P ++ untoks r ++ f ++ untoks j := by
    rw [← hrem]; simp [List.append_assoc]
  refine ⟨P ++ untoks r, j, st, rest, hb, hjunk, hstem, hf, hrest, ?_⟩
  unfold setExtension
  simp only [h, hstem]
  have hcut : lastCompEnd e b - f.length + st.length = (P ++ untoks r ++ st).length := by
    rw [hcut0]; simp only [List.length_append]; omega
  rw [hcut]
  have htake : b.take (P ++ untoks r ++ st).length = P ++ untoks r ++ st := by
    have hb' : b = (P ++ untoks r ++ st) ++ (rest ++ untoks j) := by
      rw [hb, hf]; simp [List.append_assoc]
    conv => lhs; rw [hb']
    exact List.take_left' rfl
  rw [htake]

/-- the same with the token decomposition made explicit (used by Props/C14) -/
theorem set_ext_tokens (e : Enc) (b x f : Bytes) (h : fileName e b = some f) :
    ∃ r j st, (e.new b).toks = r ++ [.seg f] ++ j ∧ (∀ t ∈ j, junk (e.new b).k t = true) ∧
      fileStem e b = some st ∧
      setExtension e b x = ((e.new b).preBytes ++ untoks r ++ st ++ (if x = [] then [] else DOT :: x), true) := by
  obtain ⟨r, j, hts, hjunk, hsb⟩ := fileName_tokens e b f h
  obtain ⟨st, rest, hst, hf, hrest⟩ := rsplitDot_stem_prefix f
  have hstem : fileStem e b = some st := by simp only [fileStem, h]; exact hst
  have hrem := new_remaining e b
  have hcut0 : lastCompEnd e b = ((e.new b).preBytes ++ untoks r ++ f).length := by
    unfold lastCompEnd
    simp only [hsb, C09.untoks_append, untoks, Tok.bytes, List.append_nil, List.length_append]
    omega
  simp only [PState.remaining] at hrem
  rw [hts, C09.untoks_append, C09.untoks_append] at hrem
  simp only [untoks, Tok.bytes, List.append_nil] at hrem
  refine ⟨r, j, st, hts, hjunk, hstem, ?_⟩
  generalize (e.new b).preBytes = P at hrem hcut0 ⊢
  have hb : b = P ++ untoks r ++ f ++ untoks j := by
    rw [← hrem]; simp [List.append_assoc]
  unfold setExtension
  simp only [h, hstem]
  have hcut : lastCompEnd e b - f.length + st.length = (P ++ untoks r ++ st).length := by
    rw [hcut0]; simp only [List.length_append]; omega
  rw [hcut]
  have htake : b.take (P ++ untoks r ++ st).length = P ++ untoks r ++ st := by
    have hb' : b = (P ++ untoks r ++ st) ++ (rest ++ untoks j) := by
      rw [hb, hf]; simp [List.append_assoc]
    conv => lhs; rw [hb']
    exact List.take_left' rfl
  rw [htake]

/-- The cut made by `set_extension` is followed, in the old buffer, by a dot, by a token that
is junk (a separator, or a `.` segment) or by nothing: never in the middle of a name, hence
on a character boundary of every valid UTF-8 buffer (the following byte is ASCII). -/
theorem set_ext_cut_boundary (e : Enc) (b x f : Bytes) (h : fileName e b = some f) :
    ∃ pre st after, b = pre ++ st ++ after ∧ fileStem e b = some st ∧
      (setExtension e b x).1 = pre ++ st ++ (if x = [] then [] else DOT :: x) ∧
      (after = [] ∨ after.head? = some DOT ∨
        ∃ t j, junk (e.new b).k t = true ∧ after = untoks (t :: j)) := by
  obtain ⟨pre, j, st, rest, hb, hjunk, hstem, hf, hrest, hset⟩ := set_ext_bytes e b x f h
  refine ⟨pre, st, rest ++ untoks j, ?_, hstem, by rw [hset], ?_⟩
  · rw [hb, hf]; simp [List.append_assoc]
  · rcases hrest with hr | hr
    · subst hr
      cases j with
      | nil => left; rfl
      | cons t j' => right; right; exact ⟨t, j', hjunk t (by simp), by simp⟩
    · right; left
      cases rest with
      | nil => simp at hr
      | cons y ys => simpa using hr

/-- Applying `set_extension` never fails to terminate or panic in the model: it is a total
function; this restates the two cases as one equation usable by C18. -/
theorem set_ext_total (e : Enc) (b x : Bytes) :
    (∃ r, setExtension e b x = (r, true)) ∨ setExtension e b x = (b, false) := by
  cases hf : fileName e b with
  | none => right; exact set_ext_false e b x hf
  | some f =>
    left
    obtain ⟨pre, j, st, rest, _, _, _, _, _, hset⟩ := set_ext_bytes e b x f hf
    exact ⟨_, hset⟩

/-! ### Non-vacuity -/

example : setExtension .unix [97, 46, 116, 120, 116, 47] [110, 101, 119] = ([97, 46, 110, 101, 119], true) := by decide
example : setExtension .unix [97, 47, 46] [120] = ([97, 46, 120], true) := by decide
example : setExtension .windows [67, 58, 92] [120] = ([67, 58, 92], false) := by decide
example : setExtension .unix [97, 46] [] = ([97], true) := by decide

end TP.C13
