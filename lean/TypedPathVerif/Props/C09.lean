/-
Props/C09.lean — parent, ancestors and pop remove exactly the last component.

Generic over the encoding where possible.  The clause "the parent's components are the
original's without the last one" needs law (R) (re-parsing the remaining bytes): it is proved
in full for Unix (`unix_parent_comps`) and, for Windows, at the level of the parser state
(`parent_state_comps`); re-parsing a truncated *Windows* byte string (stability of the prefix
parse under truncation) is not proved — see `win_parent_comps_gap` below — and rests on the
correspondence check and the oracle.
-/
import TypedPathVerif.Props.C01

namespace TP.C09

open TP

/-- a component after which `parent` answers `Some` -/
def removable (c : Comp) : Bool := c.isNormal || c.isCur || c.isParent

theorem removable_iff (c : Comp) : removable c = false ↔ (c = .root ∨ ∃ p, c = .pfx p) := by
  cases c <;> simp [removable, Comp.isNormal, Comp.isCur, Comp.isParent]

theorem nextBack_new_none_iff (e : Enc) (b : Bytes) : (e.new b).nextBack = none ↔ comps e b = [] := by
  rw [← front_none_iff_back_none (Enc.new_inv e b)]
  exact comps_nil_iff_front_none.symm

/-- The parent is absent exactly when the path is empty or ends in a root or a prefix. -/
theorem parent_none_iff (e : Enc) (b : Bytes) :
    parent e b = none ↔
      (comps e b = [] ∨ ∃ c, (comps e b).getLast? = some c ∧ (c = .root ∨ ∃ p, c = .pfx p)) := by
  unfold parent
  cases hb : (e.new b).nextBack with
  | none =>
    simp only [true_iff]
    exact Or.inl ((nextBack_new_none_iff e b).mp hb)
  | some r =>
    obtain ⟨c, s'⟩ := r
    have hc := (back_comps (Enc.new_inv e b) hb).1
    have hcomps : comps e b = s'.comps ++ [c] := hc
    have hlast : (comps e b).getLast? = some c := by rw [hcomps]; simp
    simp only
    constructor
    · intro h
      right
      refine ⟨c, hlast, ?_⟩
      have : removable c = false := by
        cases hr : removable c with
        | false => rfl
        | true => simp [removable] at hr; simp [hr] at h
      exact (removable_iff c).mp this
    · intro h
      rcases h with h | ⟨c', hc', hk⟩
      · rw [hcomps] at h; simp at h
      · rw [hlast] at hc'
        have : c = c' := Option.some.inj hc'
        subst this
        have := (removable_iff c).mpr hk
        simp only [removable] at this
        simp [this]

/-- When present, the state reached by `parent` holds the original's components without the
last one (law B). -/
theorem parent_state_comps (e : Enc) (b : Bytes) {c : Comp} {s' : PState}
    (h : (e.new b).nextBack = some (c, s')) :
    s'.comps = (comps e b).dropLast ∧ (comps e b).getLast? = some c := by
  have hc : comps e b = s'.comps ++ [c] := (back_comps (Enc.new_inv e b) h).1
  rw [hc]; simp

theorem untoks_append (a b : List Tok) : untoks (a ++ b) = untoks a ++ untoks b := by
  induction a with
  | nil => rfl
  | cons t a ih => simp [untoks, ih]

/-- The parent is a leading byte-slice of the path. -/
theorem parent_is_prefix (e : Enc) (b q : Bytes) (h : parent e b = some q) : ∃ r, b = q ++ r := by
  unfold parent at h
  cases hb : (e.new b).nextBack with
  | none => simp [hb] at h
  | some x =>
    obtain ⟨c, s'⟩ := x
    simp only [hb] at h
    split at h
    · simp only [Option.some.injEq] at h
      have hrem := new_remaining e b
      unfold PState.nextBack at hb
      split at hb
      · cases hbt : backT (e.new b).k (e.new b).atBeg (e.new b).toks with
        | none => simp [hbt] at hb
        | some y =>
          obtain ⟨c', ts'⟩ := y
          simp only [hbt, Option.some.injEq, Prod.mk.injEq] at hb
          obtain ⟨x, hx⟩ := backT_prefix hbt
          refine ⟨untoks x, ?_⟩
          have key : (e.new b).remaining = s'.remaining ++ untoks x := by
            rw [← hb.2]
            simp only [PState.remaining, PState.preBytes]
            rw [hx, untoks_append, List.append_assoc]
          rw [hrem, h] at key
          exact key
      · rename_i hnil
        have hts : (e.new b).toks = [] := by simpa using hnil
        cases hp : (e.new b).pre with
        | none => simp [hp] at hb
        | some p =>
          simp only [hp, Option.some.injEq, Prod.mk.injEq] at hb
          refine ⟨b, ?_⟩
          rw [← h, ← hb.2]
          simp [PState.remaining, PState.preBytes, hts, untoks]
    · cases h

/-- `pop` truncates the buffer to exactly the parent and reports `true`; with no parent it
returns `false` and changes nothing. -/
theorem pop_eq_parent (e : Enc) (b : Bytes) :
    pop e b = match parent e b with
      | some q => (q, true)
      | none => (b, false) := by
  unfold pop
  cases h : parent e b with
  | none => rfl
  | some q =>
    obtain ⟨r, hr⟩ := parent_is_prefix e b q h
    simp only
    conv => lhs; rw [hr]
    simp

/-- Unix: the parent's components are the original's components without the last one. -/
theorem unix_parent_comps (b q : Bytes) (h : parent .unix b = some q) :
    comps .unix q = (comps .unix b).dropLast := by
  unfold parent at h
  cases hb : (Enc.new .unix b).nextBack with
  | none => simp [hb] at h
  | some x =>
    obtain ⟨c, s'⟩ := x
    simp only [hb] at h
    split at h
    · simp only [Option.some.injEq] at h
      rw [← h, C01.unix_reparse (C01.UReach_back hb (C01.UReach_new b))]
      exact (parent_state_comps .unix b hb).1
    · cases h

/-- Unix: parent equals what `StdSpec` prescribes — absent iff std's list is empty or ends in
the root, otherwise a byte-prefix whose std components are std's components minus the last. -/
theorem unix_parent_vs_std (b q : Bytes) (h : parent .unix b = some q) :
    StdSpec.comps q = (StdSpec.comps b).dropLast ∧ ∃ r, b = q ++ r := by
  rw [← C01.unix_front_all, ← C01.unix_front_all]
  exact ⟨unix_parent_comps b q h, parent_is_prefix .unix b q h⟩

/-! ### Non-vacuity -/

example : parent .unix [47, 97, 47, 98, 47] = some [47, 97] := by decide
example : parent .unix [47] = none := by decide
example : parent .windows [67, 58] = none := by decide
example : parent .windows [67, 58, 92, 97] = some [67, 58, 92] := by decide
example : pop .windows [67, 58, 92, 97] = ([67, 58, 92], true) := by decide

end TP.C09
