/-
Props/C02e.lean — the order of alternatives of the Windows component parser (regenerated table, gen/alts.py).
Kept in a file of its own, importing nothing but the table, so that only a change to the parser's ordered
choices can break it.
-/
import TypedPathVerif.Generated.Alts

namespace TP.C02e

/-- The order of alternatives of the Windows component parser, as regenerated from the source on every run by
gen/alts.py: the six prefix parsers in the order `Win.parsePrefix_alts` assumes (verbatim UNC, verbatim disk,
verbatim, device namespace, UNC, disk), `prefix_verbatim` = a name or (peeked) a separator, a front step at the
beginning = root, `.`, file name, skipping = separators and (when normalising) `.` segments. -/
def coveredWindowsAlts : List (String × List String) := [
  ("windows/non_utf8::parse_front", ["root_dir", "cur_dir", "filename"]),
  ("windows/non_utf8::move_front_to_next", ["separator(normalize)", "map(cur_dir(normalize), |_| ())"]),
  ("windows/non_utf8::prefix", ["prefix_verbatim_unc", "prefix_verbatim_disk", "prefix_verbatim", "prefix_device_ns", "prefix_unc", "prefix_disk"]),
  ("windows/non_utf8::prefix_verbatim", ["normal_bytes(normalized)", "map(peek(separator(normalized)), |_| b\"\")"])
]

theorem windows_parser_alts_covered : Generated.windowsParserAlts = coveredWindowsAlts := rfl

end TP.C02e
