/-
Lemmas/CombPrefix.lean — the byte-level Windows prefix parsers built from the combinators
(`Model/Comb/Windows.lean`) never fault and equal the option-valued prefix parsers of
`Model/Enc.lean` (on which the theorems of C02 / C02b / C08 are stated).
-/
import TypedPathVerif.Lemmas.CombWin
import TypedPathVerif.Lemmas.EncNew

namespace TP.Comb.Windows

open TP TP.Comb

/-- `Option (value × rest)` as a parse result -/
def liftO {α : Type} : Option (α × Bytes) → Res α
  | some (v, r) => .ok r v
  | none => .err

theorem separator_eq (n : Bool) (i : Bytes) :
    separator n i = match takeSep n i with
      | some r => .ok r ()
      | none => .err := by
  unfold separator
  cases i with
  | nil => simp [List.isPrefixOf, takeSep]
  | cons x r =>
    simp only [List.isPrefixOf, Bool.and_true, sep_cond, takeSep, sliceFrom]
    cases wsep n x <;> simp

theorem normalBytes_eq (n : Bool) (i : Bytes) : normalBytes n i = liftO (takeNormal n i) := by
  unfold normalBytes takeNormal
  rw [takeUntilByte1_eq]
  simp only
  split <;> rfl

theorem verbatim_eq (i : Bytes) :
    verbatim i = match verbatimHdr i with
      | some r => .ok r ()
      | none => .err := by
  unfold verbatim
  simp only [separator_eq, byte_eq]
  match i with
  | [] => simp [takeSep, verbatimHdr, Res.bind]
  | [a] => cases h : wsep true a <;> simp [takeSep, verbatimHdr, Res.bind, h]
  | [a, b] =>
    cases h : wsep true a <;> cases h' : wsep true b <;> simp [takeSep, verbatimHdr, Res.bind, h, h']
  | [a, b, q] =>
    cases h : wsep true a <;> cases h' : wsep true b <;> by_cases hq : q = QMARK <;>
      simp [takeSep, verbatimHdr, Res.bind, h, h', hq]
  | a :: b :: q :: c :: r =>
    cases h : wsep true a <;> cases h' : wsep true b <;> by_cases hq : q = QMARK <;>
      cases h'' : wsep true c <;>
      simp [takeSep, verbatimHdr, Res.bind, h, h', hq, h'', anySep]

theorem diskByte_eq (i : Bytes) : diskByte i = liftO (TP.diskByte i) := by
  unfold diskByte driveLetter
  simp only [take_eq, byte_eq]
  match i with
  | [] => simp [TP.diskByte, liftO, Res.bind]
  | [d] =>
    cases h : isAsciiAlpha d <;> simp [TP.diskByte, liftO, Res.bind, index0, h]
  | d :: c :: r =>
    cases h : isAsciiAlpha d <;> by_cases hc : c = COLON <;>
      simp [TP.diskByte, liftO, Res.bind, index0, h, hc]

theorem takeUNC_spec (i : Bytes) :
    (∃ r, i = UNC ++ r ∧ takeUNC i = some r) ∨ ((∀ r, i ≠ UNC ++ r) ∧ takeUNC i = none) := by
  unfold takeUNC
  split
  · rename_i r; exact Or.inl ⟨r, rfl, rfl⟩
  · rename_i hne; exact Or.inr ⟨fun r h => hne r h, rfl⟩

theorem bytesUNC_eq (i : Bytes) :
    bytes UNC i = match takeUNC i with
      | some r => .ok r UNC
      | none => .err := by
  rw [bytes_eq]
  rcases takeUNC_spec i with ⟨r, hi, ht⟩ | ⟨hne, ht⟩
  · rw [ht, hi]
    have hp : UNC.isPrefixOf (UNC ++ r) = true := List.isPrefixOf_iff_prefix.mpr ⟨r, rfl⟩
    have hn : UNC ++ r ≠ [] := by simp [UNC]
    simp only [ne_eq, hn, not_false_eq_true, hp, and_self, if_true, List.drop_left]
  · rw [ht]
    have hp : ¬ (i ≠ [] ∧ UNC.isPrefixOf i = true) := by
      rintro ⟨_, h⟩
      obtain ⟨t, ht⟩ := List.isPrefixOf_iff_prefix.mp h
      exact hne t ht.symm
    simp only [hp, if_false]

/-- server, optional separator, optional share -/
theorem serverShare_eq (n : Bool) (i : Bytes) (mk : Bytes → Bytes → WPrefix) :
    ((normalBytes n i).bind fun i server =>
      (maybe (separator n) i).bind fun i _ =>
        (maybe (normalBytes n) i).bind fun i maybeShare =>
          .ok i (mk server (maybeShare.getD []))) =
    match serverShare n i with
    | some (server, share, r) => .ok r (mk server share)
    | none => .err := by
  simp only [normalBytes_eq, maybe, separator_eq]
  unfold serverShare maybeSep
  cases h1 : takeNormal n i with
  | none => simp [liftO, Res.bind]
  | some p =>
    obtain ⟨server, r⟩ := p
    simp only [liftO, Res.bind]
    cases h2 : takeSep n r with
    | none =>
      simp only
      cases h3 : takeNormal n r with
      | none => simp [liftO]
      | some q => obtain ⟨share, r'⟩ := q; simp [liftO]
    | some r2 =>
      simp only
      cases h3 : takeNormal n r2 with
      | none => simp [liftO]
      | some q => obtain ⟨share, r'⟩ := q; simp [liftO]

theorem prefixVerbatimUNC_eq (i : Bytes) : prefixVerbatimUNC i = liftO (TP.prefixVerbatimUNC i) := by
  unfold prefixVerbatimUNC TP.prefixVerbatimUNC
  simp only [serverShare_eq]
  simp only [verbatim_eq, bytesUNC_eq, separator_eq]
  cases h1 : verbatimHdr i with
  | none => simp [liftO, Res.bind]
  | some r1 =>
    simp only [Res.bind]
    cases h2 : takeUNC r1 with
    | none => simp [liftO]
    | some r2 =>
      simp only
      cases h3 : takeSep (!startsWith i VERB) r2 with
      | none => simp [liftO]
      | some r3 =>
        simp only
        cases h4 : serverShare (!startsWith i VERB) r3 with
        | none => simp [liftO]
        | some p => obtain ⟨sv, sh, r⟩ := p; simp [liftO]

theorem prefixVerbatimDisk_eq (i : Bytes) : prefixVerbatimDisk i = liftO (TP.prefixVerbatimDisk i) := by
  unfold prefixVerbatimDisk TP.prefixVerbatimDisk
  simp only [map, prefixed, verbatim_eq, diskByte_eq]
  cases h1 : verbatimHdr i with
  | none => simp [liftO, Res.bind]
  | some r1 =>
    simp only [Res.bind]
    cases h2 : TP.diskByte r1 with
    | none => simp [liftO]
    | some p => obtain ⟨d, r⟩ := p; simp [liftO]

theorem liftO_isOk {α : Type} (o : Option (α × Bytes)) : (liftO o).isOk = o.isSome := by
  cases o with
  | none => rfl
  | some p => obtain ⟨v, r⟩ := p; rfl

theorem not_liftO {α : Type} (o : Option (α × Bytes)) (i : Bytes) (p : P α) (hp : p i = liftO o) :
    not p i = if o.isSome then .err else .ok i () := by
  unfold not
  rw [hp]
  cases o with
  | none => rfl
  | some q => obtain ⟨v, r⟩ := q; rfl

theorem prefixVerbatim_eq (i : Bytes) : prefixVerbatim i = liftO (TP.prefixVerbatim i) := by
  unfold prefixVerbatim TP.prefixVerbatim
  rw [not_liftO _ i _ (prefixVerbatimDisk_eq i)]
  by_cases hd : (TP.prefixVerbatimDisk i).isSome = true
  · simp [hd, Res.bind, liftO]
  · simp only [hd, Bool.false_eq_true, if_false, Res.bind]
    rw [not_liftO _ i _ (prefixVerbatimUNC_eq i)]
    by_cases hu : (TP.prefixVerbatimUNC i).isSome = true
    · simp [hu, Res.bind, liftO]
    · simp only [hu, Bool.false_eq_true, if_false, Res.bind, verbatim_eq]
      cases h1 : verbatimHdr i with
      | none => simp [liftO]
      | some r1 =>
        simp only [anyOf, normalBytes_eq, map, peek, separator_eq]
        cases h2 : takeNormal (!startsWith i VERB) r1 with
        | some p => obtain ⟨nm, r⟩ := p; simp [liftO, Res.bind]
        | none =>
          simp only [liftO, Res.bind]
          cases h3 : takeSep (!startsWith i VERB) r1 with
          | none => simp
          | some r3 => simp

theorem prefixDeviceNS_eq (i : Bytes) : prefixDeviceNS i = liftO (TP.prefixDeviceNS i) := by
  unfold prefixDeviceNS
  simp only [separator_eq, byte_eq, map, normalBytes_eq]
  match i with
  | [] => simp [takeSep, TP.prefixDeviceNS, Res.bind, liftO]
  | [a] => cases h : wsep true a <;> simp [takeSep, TP.prefixDeviceNS, Res.bind, liftO, h]
  | [a, b] =>
    cases h : wsep true a <;> cases h' : wsep true b <;>
      simp [takeSep, TP.prefixDeviceNS, Res.bind, liftO, h, h']
  | [a, b, q] =>
    cases h : wsep true a <;> cases h' : wsep true b <;> by_cases hq : q = DOT <;>
      simp [takeSep, TP.prefixDeviceNS, Res.bind, liftO, h, h', hq]
  | a :: b :: q :: c :: r =>
    cases h : wsep true a <;> cases h' : wsep true b <;> by_cases hq : q = DOT <;>
      cases h'' : wsep true c <;>
      simp [takeSep, TP.prefixDeviceNS, Res.bind, liftO, h, h', hq, h'', anySep]
    cases h4 : takeNormal true r with
    | none => simp [liftO]
    | some p => obtain ⟨dev, r'⟩ := p; simp [liftO]

theorem prefixUNC_eq (i : Bytes) : prefixUNC i = liftO (TP.prefixUNC i) := by
  unfold prefixUNC
  simp only [serverShare_eq]
  simp only [separator_eq]
  match i with
  | [] => simp [takeSep, TP.prefixUNC, Res.bind, liftO]
  | [a] => cases h : wsep true a <;> simp [takeSep, TP.prefixUNC, Res.bind, liftO, h]
  | a :: b :: r =>
    cases h : wsep true a <;> cases h' : wsep true b <;>
      simp only [takeSep, TP.prefixUNC, Res.bind, liftO, h, h', anySep, Bool.false_eq_true, if_false,
        if_true, Bool.and_self, Bool.and_false, Bool.false_and]
    cases h4 : serverShare true r with
    | none => simp [liftO]
    | some p => obtain ⟨sv, sh, r'⟩ := p; simp [liftO]

theorem prefixDisk_eq (i : Bytes) : prefixDisk i = liftO (TP.prefixDisk i) := by
  unfold prefixDisk TP.prefixDisk
  simp only [map, diskByte_eq]
  cases h : TP.diskByte i with
  | none => simp [liftO, Res.bind]
  | some p => obtain ⟨d, r⟩ := p; simp [liftO, Res.bind]

/-- `prefix`: never faults, equals `parsePrefix` -/
theorem pfx_eq (i : Bytes) : pfx i = liftO (parsePrefix i) := by
  unfold pfx parsePrefix
  simp only [anyOf, prefixVerbatimUNC_eq, prefixVerbatimDisk_eq, prefixVerbatim_eq, prefixDeviceNS_eq,
    prefixUNC_eq, prefixDisk_eq]
  cases h1 : TP.prefixVerbatimUNC i with
  | some p => obtain ⟨k, r⟩ := p; simp [liftO]
  | none =>
    cases h2 : TP.prefixVerbatimDisk i with
    | some p => obtain ⟨k, r⟩ := p; simp [liftO]
    | none =>
      cases h3 : TP.prefixVerbatim i with
      | some p => obtain ⟨k, r⟩ := p; simp [liftO]
      | none =>
        cases h4 : TP.prefixDeviceNS i with
        | some p => obtain ⟨k, r⟩ := p; simp [liftO]
        | none =>
          cases h5 : TP.prefixUNC i with
          | some p => obtain ⟨k, r⟩ := p; simp [liftO]
          | none =>
            cases h6 : TP.prefixDisk i with
            | some p => obtain ⟨k, r⟩ := p; simp [liftO]
            | none => simp [liftO]

/-- `prefix_component`: the length subtraction and the slice are in range -/
theorem prefixComponent_eq (i : Bytes) : prefixComponent i = liftO (parsePrefixComp i) := by
  unfold prefixComponent parsePrefixComp
  rw [pfx_eq]
  cases h : parsePrefix i with
  | none => simp [liftO, Res.bind]
  | some p =>
    obtain ⟨k, rest⟩ := p
    obtain ⟨q, hq⟩ := parsePrefix_suffix h
    have hle : rest.length ≤ i.length := by rw [hq]; simp
    have hle2 : i.length - rest.length ≤ i.length := by omega
    simp [liftO, Res.bind, checkedSub, sliceTo, hle, hle2]

end TP.Comb.Windows
