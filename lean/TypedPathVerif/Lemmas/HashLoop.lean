/-
Lemmas/HashLoop.lean — the index loop of `Encoding::hash` (`Model/Path.lean: hashBody`) equals a
description on TOKENS: one chunk per segment token, except a `.` segment that follows a separator
(when `.` is skipped), then the number of bytes written.

Stage 1 (`hashBody_eq_go`): the loop over indices `0..len` with state `component_start` is a
structural recursion over the bytes with state "the pending slice" (`go`).
Stage 2 (`go_toks`): on the bytes of a well-formed token list, `go` emits exactly the token texts.
-/
import TypedPathVerif.Lemmas.CombUnix
import TypedPathVerif.Model.Path

namespace TP.HashLoop

open TP

/-- does a `.` to be skipped come next? (`[b'.']` or `[b'.', sep, ..]`) -/
def extraOf (skipDot : Bool) (dotSep : UInt8 → Bool) (xs : Bytes) : Nat :=
  if skipDot then
    match xs with
    | [d] => if d = DOT then 1 else 0
    | d :: s :: _ => if d = DOT ∧ dotSep s = true then 1 else 0
    | _ => 0
  else 0

/-- structural form of the loop: `cur` = bytes since `component_start`, `skip` = the next byte is
the `.` that was jumped over -/
def go (isSep : UInt8 → Bool) (skipDot : Bool) (dotSep : UInt8 → Bool) :
    Bytes → Bool → Nat → List Bytes → Bytes → List Bytes
  | cur, _, hashed, out, [] =>
    if cur ≠ [] then out ++ [cur] ++ [usizeChunk (hashed + cur.length)] else out ++ [usizeChunk hashed]
  | cur, skip, hashed, out, x :: xs =>
    if isSep x then
      let ex := extraOf skipDot dotSep xs
      if cur ≠ [] then go isSep skipDot dotSep [] (ex == 1) (hashed + cur.length) (out ++ [cur]) xs
      else go isSep skipDot dotSep [] (ex == 1) hashed out xs
    else if skip then go isSep skipDot dotSep [] false hashed out xs
    else go isSep skipDot dotSep (cur ++ [x]) false hashed out xs

/-- the loop state `st` at index `i` corresponds to (`cur`, `skip`) -/
def Rel (bytes : Bytes) (st : HashSt) (i : Nat) (cur : Bytes) (skip : Bool) : Prop :=
  (skip = false ∧ st.start ≤ i ∧ cur = (bytes.drop st.start).take (i - st.start)) ∨
  (skip = true ∧ st.start = i + 1 ∧ cur = [])

theorem hashStep_extra (isSep : UInt8 → Bool) (skipDot : Bool) (dotSep : UInt8 → Bool) (bytes : Bytes)
    (st : HashSt) (i : Nat) (h : isSep (bytes.getD i 0) = true) :
    (hashStep isSep skipDot dotSep bytes st i).start = i + 1 + extraOf skipDot dotSep (bytes.drop (i + 1)) := by
  unfold hashStep extraOf
  simp only [h, if_true]
  cases bytes.drop (i + 1) with
  | nil => rfl
  | cons d t => cases t <;> rfl

theorem extraOf_le (skipDot : Bool) (dotSep : UInt8 → Bool) (xs : Bytes) : extraOf skipDot dotSep xs ≤ 1 := by
  unfold extraOf
  split
  · split
    · split <;> omega
    · split <;> omega
    · omega
  · omega

theorem take_succ_drop (bytes : Bytes) (s i : Nat) (x : UInt8) (hs : s ≤ i) (hx : bytes[i]? = some x) :
    (bytes.drop s).take (i + 1 - s) = (bytes.drop s).take (i - s) ++ [x] := by
  have h1 : i + 1 - s = (i - s) + 1 := by omega
  rw [h1, List.take_succ]
  congr 1
  have : (bytes.drop s)[i - s]? = bytes[i]? := by
    rw [List.getElem?_drop]; congr 1; omega
  rw [this, hx]; rfl

/-- Stage 1, generalised: running the index loop from `i` over the remaining bytes `rem` -/
theorem loop_eq_go (isSep : UInt8 → Bool) (skipDot : Bool) (dotSep : UInt8 → Bool) (bytes : Bytes)
    (hdotns : isSep DOT = false) :
    ∀ (rem done : Bytes) (st : HashSt) (cur : Bytes) (skip : Bool),
      bytes = done ++ rem → Rel bytes st done.length cur skip →
      (skip = true → ∃ r, rem = DOT :: r ∧ isSep DOT = false) →
      (let st' := (List.range' done.length rem.length).foldl (hashStep isSep skipDot dotSep bytes) st
       let st'' : HashSt :=
         if st'.start < bytes.length then
           { st' with hashed := st'.hashed + (bytes.drop st'.start).length, out := st'.out ++ [bytes.drop st'.start] }
         else st'
       st''.out ++ [usizeChunk st''.hashed]) = go isSep skipDot dotSep cur skip st.hashed st.out rem := by
  intro rem
  induction rem with
  | nil =>
    intro done st cur skip hb hrel hskip
    simp only [List.length_nil, List.range'_zero, List.foldl_nil, go]
    have hlen : bytes.length = done.length := by rw [hb]; simp
    rcases hrel with ⟨_, hle, hcur⟩ | ⟨hs, _, _⟩
    · by_cases hlt : st.start < bytes.length
      · have hne : cur ≠ [] := by
          rw [hcur]
          intro h0
          have := congrArg List.length h0
          simp at this
          omega
        have hcd : cur = bytes.drop st.start := by
          rw [hcur, List.take_of_length_le]; simp; omega
        simp only [hlt, if_true, hne, ne_eq, not_false_eq_true, ← hcd]
      · have hce : cur = [] := by
          rw [hcur]
          have : done.length - st.start = 0 := by omega
          rw [this]; rfl
        simp [hlt, hce]
    · obtain ⟨r, hr, _⟩ := hskip hs
      cases hr
  | cons x xs ih =>
    intro done st cur skip hb hrel hskip
    have hlen : bytes.length = done.length + (xs.length + 1) := by rw [hb]; simp
    have hget : bytes[done.length]? = some x := by
      rw [hb]; simp
    have hgetD : bytes.getD done.length 0 = x := by
      simp [List.getD, hget]
    have hdrop : bytes.drop (done.length + 1) = xs := by
      rw [hb]
      have : done.length + 1 = (done ++ [x]).length := by simp
      rw [this, show done ++ x :: xs = (done ++ [x]) ++ xs by simp, List.drop_left]
    have hb' : bytes = (done ++ [x]) ++ xs := by rw [hb]; simp
    have hdl : (done ++ [x]).length = done.length + 1 := by simp
    simp only [List.length_cons, List.range'_succ, List.foldl_cons]
    have key := ih (done ++ [x]) (hashStep isSep skipDot dotSep bytes st done.length)
    rw [hdl] at key
    by_cases hsep : isSep x = true
    · -- a separator: emit the pending slice, maybe skip a dot
      have hstart := hashStep_extra isSep skipDot dotSep bytes st done.length (by rw [hgetD]; exact hsep)
      rw [hdrop] at hstart
      have hex := extraOf_le skipDot dotSep xs
      -- the skip case cannot meet a separator: the skipped byte is a dot
      have hns : skip = false := by
        cases hsk : skip with
        | false => rfl
        | true =>
          obtain ⟨r, hr, hd⟩ := hskip hsk
          simp only [List.cons.injEq] at hr
          rw [hr.1] at hsep; rw [hsep] at hd; cases hd
      subst hns
      rcases hrel with ⟨_, hle, hcur⟩ | ⟨hs, _, _⟩
      · simp only [go, hsep, if_true]
        -- new relation
        have hrel' : ∀ st1 : HashSt, st1.start = done.length + 1 + extraOf skipDot dotSep xs →
            Rel bytes st1 (done.length + 1) [] (extraOf skipDot dotSep xs == 1) := by
          intro st1 h1
          by_cases he : extraOf skipDot dotSep xs = 1
          · right; exact ⟨by simp [he], by omega, rfl⟩
          · left
            have : extraOf skipDot dotSep xs = 0 := by omega
            refine ⟨by simp [this], by omega, ?_⟩
            rw [h1, this]; simp
        have hskip' : (extraOf skipDot dotSep xs == 1) = true → ∃ r, xs = DOT :: r ∧ isSep DOT = false := by
          intro he
          have he' : extraOf skipDot dotSep xs = 1 := by simpa using he
          unfold extraOf at he'
          split at he'
          · split at he'
            · rename_i d
              split at he'
              · rename_i hd; subst hd
                refine ⟨[], rfl, ?_⟩
                -- `.` is not a separator in either encoding: supplied by the caller through `hdotns`
                exact hdotns
              · cases he'
            · rename_i d s t
              split at he'
              · rename_i hd
                refine ⟨s :: t, by rw [hd.1], hdotns⟩
              · cases he'
            · cases he'
          · cases he'
        by_cases hc : cur = []
        · -- nothing pending: `i > start` is false
          have hnot : ¬ done.length > st.start := by
            intro hgt
            rw [hcur] at hc
            have := congrArg List.length hc
            simp at this
            omega
          have hst : hashStep isSep skipDot dotSep bytes st done.length =
              { st with start := done.length + 1 + extraOf skipDot dotSep xs } := by
            have h2 := hstart
            unfold hashStep at h2 ⊢
            simp only [hgetD, hsep, if_true, hnot, if_false] at h2 ⊢
            rw [h2]
          simp only [hc, ne_eq, not_true_eq_false, if_false]
          have := key [] (extraOf skipDot dotSep xs == 1) hb' (hrel' _ hstart) hskip'
          rw [hst] at this ⊢
          exact this
        · have hgt : done.length > st.start := by
            rcases Nat.lt_or_ge st.start done.length with h | h
            · exact h
            · exfalso; apply hc; rw [hcur]
              have : done.length - st.start = 0 := by omega
              rw [this]; rfl
          have hst : hashStep isSep skipDot dotSep bytes st done.length =
              { start := done.length + 1 + extraOf skipDot dotSep xs, hashed := st.hashed + cur.length,
                out := st.out ++ [cur] } := by
            have h2 := hstart
            unfold hashStep at h2 ⊢
            simp only [hgetD, hsep, if_true, hgt, ← hcur] at h2 ⊢
            rw [h2]
          simp only [hc, ne_eq, not_false_eq_true, if_true]
          have := key [] (extraOf skipDot dotSep xs == 1) hb' (hrel' _ hstart) hskip'
          rw [hst] at this ⊢
          exact this
      · cases hs
    · -- not a separator: the state is unchanged
      have hst : hashStep isSep skipDot dotSep bytes st done.length = st := by
        unfold hashStep; rw [hgetD, if_neg hsep]
      rw [hst] at key ⊢
      simp only [go, hsep, Bool.false_eq_true, if_false]
      rcases hrel with ⟨hs, hle, hcur⟩ | ⟨hs, hst1, hcur⟩
      · subst hs
        simp only [Bool.false_eq_true, if_false]
        refine key (cur ++ [x]) false hb' (Or.inl ⟨rfl, by omega, ?_⟩) (fun h => by cases h)
        rw [hcur]; exact (take_succ_drop bytes st.start done.length x hle hget).symm
      · subst hs
        simp only [if_true]
        refine key [] false hb' (Or.inl ⟨rfl, by omega, ?_⟩) (fun h => by cases h)
        rw [hst1]; simp

/-- Stage 1: the index loop is the structural recursion -/
theorem hashBody_eq_go (isSep : UInt8 → Bool) (skipDot : Bool) (dotSep : UInt8 → Bool) (bytes : Bytes)
    (pre : List Bytes) (hdotns : isSep DOT = false) :
    hashBody isSep skipDot dotSep bytes pre = go isSep skipDot dotSep [] false 0 pre bytes := by
  have := loop_eq_go isSep skipDot dotSep bytes hdotns bytes [] ⟨0, 0, pre⟩ [] false rfl
    (Or.inl ⟨rfl, Nat.le_refl _, rfl⟩) (fun h => by cases h)
  simp only [List.length_nil] at this
  rw [← this]
  unfold hashBody
  rw [List.range_eq_range']

/-! ### Stage 2: on tokens -/

/-- the chunks: every segment, except a `.` segment directly after a separator when `.` is skipped -/
def tokTexts (skipDot : Bool) : Bool → List Tok → List Bytes
  | _, [] => []
  | _, .sep _ :: r => tokTexts skipDot true r
  | afterSep, .seg s :: r => (if skipDot && afterSep && s == [DOT] then [] else [s]) ++ tokTexts skipDot false r

def pend (cur : Bytes) : List Bytes := if cur ≠ [] then [cur] else []

def total (l : List Bytes) : Nat := (l.map List.length).sum

theorem total_append (a b : List Bytes) : total (a ++ b) = total a + total b := by
  simp [total]

/-- accumulating the bytes of a segment -/
theorem go_seg (isSep : UInt8 → Bool) (skipDot : Bool) (dotSep : UInt8 → Bool) :
    ∀ (s cur : Bytes) (hashed : Nat) (out : List Bytes) (rest : Bytes), (∀ y ∈ s, isSep y = false) →
      go isSep skipDot dotSep cur false hashed out (s ++ rest) = go isSep skipDot dotSep (cur ++ s) false hashed out rest := by
  intro s
  induction s with
  | nil => intro cur hashed out rest _; simp
  | cons y s ih =>
    intro cur hashed out rest h
    have hy : isSep y = false := h y (by simp)
    simp only [List.cons_append, go, hy, Bool.false_eq_true, if_false]
    rw [ih (cur ++ [y]) hashed out rest (fun z hz => h z (by simp [hz]))]
    simp

/-- whether the loop decides to skip the segment that comes next -/
theorem extra_of_toks (isSep : UInt8 → Bool) (skipDot : Bool) (dotSep : UInt8 → Bool)
    (hdotns : isSep DOT = false) (hsame : skipDot = true → ∀ y, dotSep y = isSep y)
    {ts : List Tok} (hw : WFToks isSep ts) :
    (extraOf skipDot dotSep (untoks ts) == 1) =
      (match ts with
       | .seg s :: _ => skipDot && (s == [DOT])
       | _ => false) := by
  cases hsd : skipDot with
  | false => cases ts with
    | nil => simp [extraOf]
    | cons t r => cases t <;> simp [extraOf]
  | true =>
    have hs := hsame hsd
    cases ts with
    | nil => simp [extraOf, untoks]
    | cons t r =>
      cases t with
      | sep x =>
        have hx : isSep x = true := hw.1
        have hxd : x ≠ DOT := by intro h; rw [h, hdotns] at hx; cases hx
        simp only [untoks, Tok.bytes, List.singleton_append, extraOf, if_true]
        cases untoks r with
        | nil => simp [hxd]
        | cons y t' => simp [hxd]
      | seg s =>
        obtain ⟨hne, hfree, hhead, hwr⟩ := hw
        simp only [Bool.true_and]
        -- what follows the segment: nothing, or a separator
        have hrest : untoks r = [] ∨ ∃ x t', untoks r = x :: t' ∧ isSep x = true := by
          cases r with
          | nil => left; rfl
          | cons t2 r2 =>
            cases t2 with
            | sep x => right; exact ⟨x, untoks r2, rfl, hwr.1⟩
            | seg s2 => exact absurd hhead (by simp [notSegHead])
        simp only [untoks, Tok.bytes, extraOf, if_true]
        match s, hne with
        | [d], _ =>
          rcases hrest with h0 | ⟨x, t', h0, hx⟩
          · rw [h0]; by_cases hd : d = DOT <;> simp [hd]
          · rw [h0]
            have : dotSep x = true := by rw [hs x]; exact hx
            by_cases hd : d = DOT <;> simp [hd, this]
        | d :: c :: t, _ =>
          have hc : isSep c = false := hfree c (by simp)
          have hdc : dotSep c = false := by rw [hs c]; exact hc
          simp [hdc]

theorem go_toks (isSep : UInt8 → Bool) (skipDot : Bool) (dotSep : UInt8 → Bool)
    (hdotns : isSep DOT = false) (hsame : skipDot = true → ∀ y, dotSep y = isSep y) :
    ∀ (ts : List Tok), WFToks isSep ts → ∀ (cur : Bytes) (skip afterSep : Bool) (hashed : Nat) (out : List Bytes),
      (match ts with
       | .seg s :: _ => cur = [] ∧ skip = (skipDot && afterSep && (s == [DOT]))
       | _ => skip = false) →
      go isSep skipDot dotSep cur skip hashed out (untoks ts) =
        out ++ pend cur ++ tokTexts skipDot afterSep ts ++
          [usizeChunk (hashed + total (pend cur) + total (tokTexts skipDot afterSep ts))] := by
  intro ts
  induction ts with
  | nil =>
    intro _ cur skip afterSep hashed out h
    simp only [untoks, go, tokTexts, pend, total]
    by_cases hc : cur = []
    · simp [hc]
    · simp [hc]
  | cons t r ih =>
    intro hw cur skip afterSep hashed out h
    have hwr := WFToks_tail hw
    cases t with
    | sep x =>
      have hx : isSep x = true := hw.1
      simp only at h
      subst h
      simp only [untoks, Tok.bytes, List.singleton_append, go, hx, if_true, tokTexts]
      have hex := extra_of_toks isSep skipDot dotSep hdotns hsame hwr
      -- the state handed to the rest
      have hcond : (match (generalizing := false) r with
          | .seg s :: _ => ([] : Bytes) = [] ∧ (extraOf skipDot dotSep (untoks r) == 1) = (skipDot && true && (s == [DOT]))
          | _ => (extraOf skipDot dotSep (untoks r) == 1) = false) := by
        rw [hex]
        cases r with
        | nil => rfl
        | cons t2 r2 => cases t2 <;> simp
      by_cases hc : cur = []
      · simp only [hc, ne_eq, not_true_eq_false, if_false]
        rw [ih hwr [] _ true hashed out hcond]
      · simp only [hc, ne_eq, not_false_eq_true, if_true]
        rw [ih hwr [] _ true (hashed + cur.length) (out ++ [cur]) hcond]
        simp [pend, hc, total]
    | seg s =>
      obtain ⟨hne, hfree, hhead, _⟩ := hw
      simp only at h
      obtain ⟨hcur, hskip⟩ := h
      subst hcur
      simp only [untoks, Tok.bytes, tokTexts]
      have hcond : (match (generalizing := false) r with
          | .seg s' :: _ => s = [] ∧ false = (skipDot && false && (s' == [DOT]))
          | _ => false = false) := by
        cases r with
        | nil => rfl
        | cons t2 r2 =>
          cases t2 with
          | sep y => rfl
          | seg s2 => exact absurd hhead (by simp [notSegHead])
      by_cases hsk : (skipDot && afterSep && (s == [DOT])) = true
      · -- the skipped dot
        rw [hsk] at hskip
        subst hskip
        have hs : s = [DOT] := by
          simp only [Bool.and_eq_true, beq_iff_eq] at hsk; exact hsk.2
        subst hs
        simp only [hsk, if_true, List.nil_append, List.singleton_append, go, hdotns, Bool.false_eq_true, if_false]
        have hcond' : (match (generalizing := false) r with
            | .seg s' :: _ => ([] : Bytes) = [] ∧ false = (skipDot && false && (s' == [DOT]))
            | _ => false = false) := by
          cases r with
          | nil => rfl
          | cons t2 r2 => cases t2 <;> simp
        rw [ih hwr [] false false hashed out hcond']
      · have hsk' : (skipDot && afterSep && (s == [DOT])) = false := by simpa using hsk
        rw [hsk'] at hskip
        subst hskip
        simp only [hsk', Bool.false_eq_true, if_false]
        rw [go_seg isSep skipDot dotSep s [] hashed out (untoks r) hfree, List.nil_append]
        have := ih hwr s false false hashed out (by
          cases r with
          | nil => rfl
          | cons t2 r2 =>
            cases t2 with
            | sep y => rfl
            | seg s2 => exact absurd hhead (by simp [notSegHead]))
        rw [this]
        simp [pend, hne, total, Nat.add_assoc]

/-- **the hash loop on tokens**: the chunks written are the prefix's, the token texts, the count -/
theorem hashBody_toks (isSep : UInt8 → Bool) (skipDot : Bool) (dotSep : UInt8 → Bool) (bytes : Bytes)
    (pre : List Bytes) (hdotns : isSep DOT = false) (hsame : skipDot = true → ∀ y, dotSep y = isSep y) :
    hashBody isSep skipDot dotSep bytes pre =
      pre ++ tokTexts skipDot false (toks isSep bytes) ++ [usizeChunk (total (tokTexts skipDot false (toks isSep bytes)))] := by
  rw [hashBody_eq_go isSep skipDot dotSep bytes pre hdotns]
  have hw := WFToks_toks isSep bytes
  have := go_toks isSep skipDot dotSep hdotns hsame (toks isSep bytes) hw [] false false 0 pre (by
    cases toks isSep bytes with
    | nil => rfl
    | cons t r => cases t <;> simp)
  rw [untoks_toks] at this
  rw [this]
  simp [pend, total]

end TP.HashLoop
