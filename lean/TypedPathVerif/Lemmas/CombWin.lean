/-
Lemmas/CombWin.lean — the byte-level Windows component parsers (`Model/Comb/Windows.lean`)
computed on the bytes of a well-formed token list (separator set `wsep normalize`): each equals
the corresponding token-level function of `Model/Parser.lean` with `k = !normalize`, and none
faults.
-/
import TypedPathVerif.Lemmas.CombUnix
import TypedPathVerif.Model.Comb.Windows

namespace TP.Comb.Windows

open TP TP.Comb

theorem sep_cond (n : Bool) (x : UInt8) : ((BSLASH == x) || (n && (SLASH == x))) = wsep n x := by
  unfold wsep
  have h1 : (BSLASH == x) = decide (x = BSLASH) := by
    by_cases h : x = BSLASH
    · simp [h]
    · have : ¬ BSLASH = x := fun h' => h h'.symm
      simp [h, this]
  have h2 : (SLASH == x) = decide (x = SLASH) := by
    by_cases h : x = SLASH
    · simp [h]
    · have : ¬ SLASH = x := fun h' => h h'.symm
      simp [h, this]
  rw [h1, h2]

theorem dot_not_wsep (n : Bool) : wsep n DOT = false := by cases n <;> decide

theorem wsep_ne_dot {n : Bool} {x : UInt8} (h : wsep n x = true) : x ≠ DOT := by
  intro hx; rw [hx, dot_not_wsep] at h; cases h

theorem separator_toks (n : Bool) {ts : List Tok} (hw : WFToks (wsep n) ts) :
    separator n (untoks ts) = match ts with
      | .sep _ :: r => .ok (untoks r) ()
      | _ => .err := by
  unfold separator
  cases ts with
  | nil => simp [untoks, List.isPrefixOf]
  | cons t r =>
    cases t with
    | sep x =>
      have hx : wsep n x = true := hw.1
      simp only [untoks, Tok.bytes, List.singleton_append, List.isPrefixOf, Bool.and_true, sep_cond, hx,
        if_true, sliceFrom]
      simp
    | seg s =>
      obtain ⟨h1, h2, _, _⟩ := hw
      cases s with
      | nil => exact absurd rfl h1
      | cons y s' =>
        have hy : wsep n y = false := h2 y (by simp)
        simp only [untoks, Tok.bytes, List.cons_append, List.isPrefixOf, Bool.and_true, sep_cond, hy]
        simp

theorem rootDir_toks (n : Bool) {ts : List Tok} (hw : WFToks (wsep n) ts) :
    rootDir n (untoks ts) = match ts with
      | .sep _ :: r => .ok (untoks r) .root
      | _ => .err := by
  unfold rootDir
  cases ts with
  | nil => simp [untoks]
  | cons t r =>
    cases t with
    | sep x =>
      have hx : wsep n x = true := hw.1
      simp [untoks, Tok.bytes, index0, hx, sliceFrom]
    | seg s =>
      obtain ⟨h1, h2, _, _⟩ := hw
      cases s with
      | nil => exact absurd rfl h1
      | cons y s' =>
        have hy : wsep n y = false := h2 y (by simp)
        simp [untoks, Tok.bytes, index0, hy]

/-- what follows a `.` / `..`: end of input or a separator -/
theorem after_dots_ok (n : Bool) (c : Comp) {r : List Tok} (hw : WFToks (wsep n) r) (hn : notSegHead r) :
    (if (untoks r).isEmpty then Res.ok (untoks r) c
     else match index0 (untoks r) with
       | none => .fault .panic
       | some b => if !wsep n b then .err else .ok (untoks r) c) = .ok (untoks r) c := by
  cases r with
  | nil => rfl
  | cons t r' =>
    cases t with
    | sep x =>
      have hx : wsep n x = true := hw.1
      simp [untoks, Tok.bytes, index0, hx]
    | seg s => exact absurd hn (by simp [notSegHead])

theorem after_dots_err (n : Bool) (c : Comp) (y : UInt8) (rest : Bytes) (hy : wsep n y = false) :
    (if (y :: rest).isEmpty then Res.ok (y :: rest) c
     else match index0 (y :: rest) with
       | none => .fault .panic
       | some b => if !wsep n b then .err else .ok (y :: rest) c) = .err := by
  simp [index0, hy]

theorem curDir_toks (n : Bool) {ts : List Tok} (hw : WFToks (wsep n) ts) :
    curDir n (untoks ts) = match ts with
      | .seg s :: r => if s = CUR then .ok (untoks r) .cur else .err
      | _ => .err := by
  unfold curDir dotThen
  rw [bytes_eq]
  cases ts with
  | nil => simp [untoks, Res.bind]
  | cons t r =>
    cases t with
    | sep x =>
      have hx : x ≠ DOT := wsep_ne_dot hw.1
      have hb : (DOT == x) = false := by simpa using fun h => hx h.symm
      simp [untoks, Tok.bytes, CUR, List.isPrefixOf, Res.bind, hb]
    | seg s =>
      obtain ⟨h1, h2, h3, h4⟩ := hw
      match s, h1 with
      | [y], _ =>
        by_cases hy : y = DOT
        · subst hy
          simp only [untoks, Tok.bytes, CUR, List.cons_append, List.nil_append, ne_eq, reduceCtorEq,
            not_false_eq_true, List.isPrefixOf, beq_self_eq_true, Bool.and_self, and_self, if_true,
            List.length_cons, List.length_nil, List.drop_succ_cons, List.drop_zero, Res.bind]
          exact after_dots_ok n .cur h4 h3
        · have hne : [y] ≠ [DOT] := by simpa using hy
          have hb : (DOT == y) = false := by simpa using fun h => hy h.symm
          simp [untoks, Tok.bytes, CUR, List.isPrefixOf, hb, hne, Res.bind]
      | y :: z :: s', _ =>
        have hz : wsep n z = false := h2 z (by simp)
        have hne : (y :: z :: s') ≠ CUR := by simp [CUR]
        by_cases hy : y = DOT
        · subst hy
          simp only [untoks, Tok.bytes, CUR, List.cons_append, ne_eq, reduceCtorEq, not_false_eq_true,
            List.isPrefixOf, beq_self_eq_true, Bool.and_self, and_self, if_true, List.length_cons,
            List.length_nil, List.drop_succ_cons, List.drop_zero, Res.bind]
          simp [index0, hz]
        · have hb : (DOT == y) = false := by simpa using fun h => hy h.symm
          simp [untoks, Tok.bytes, CUR, List.isPrefixOf, hb, Res.bind]

theorem parentDir_toks (n : Bool) {ts : List Tok} (hw : WFToks (wsep n) ts) :
    parentDir n (untoks ts) = match ts with
      | .seg s :: r => if s = PAR then .ok (untoks r) .parent else .err
      | _ => .err := by
  unfold parentDir dotThen
  rw [bytes_eq]
  cases ts with
  | nil => simp [untoks, Res.bind]
  | cons t r =>
    cases t with
    | sep x =>
      have hx : x ≠ DOT := wsep_ne_dot hw.1
      have hb : (DOT == x) = false := by simpa using fun h => hx h.symm
      simp [untoks, Tok.bytes, PAR, List.isPrefixOf, Res.bind, hb]
    | seg s =>
      obtain ⟨h1, h2, h3, h4⟩ := hw
      match s, h1 with
      | [y], _ =>
        have hne : [y] ≠ PAR := by simp [PAR]
        rcases untoks_notSegHead h4 h3 with hu | ⟨x, rr, hu, hx⟩
        · simp [untoks, Tok.bytes, PAR, List.isPrefixOf, hu, Res.bind]
        · have hxd : x ≠ DOT := wsep_ne_dot hx
          have hb : (DOT == x) = false := by simpa using fun h => hxd h.symm
          simp [untoks, Tok.bytes, PAR, List.isPrefixOf, hu, Res.bind, hb]
      | [y, z], _ =>
        by_cases hyz : y = DOT ∧ z = DOT
        · obtain ⟨hy, hz⟩ := hyz
          subst hy; subst hz
          simp only [untoks, Tok.bytes, PAR, List.cons_append, List.nil_append, ne_eq, reduceCtorEq,
            not_false_eq_true, List.isPrefixOf, beq_self_eq_true, Bool.and_self, and_self, if_true,
            List.length_cons, List.length_nil, List.drop_succ_cons, List.drop_zero, Res.bind]
          exact after_dots_ok n .parent h4 h3
        · have hne : [y, z] ≠ [DOT, DOT] := by simpa using hyz
          have hb : ((DOT == y) && (DOT == z)) = false := by
            rw [Bool.and_eq_false_iff]
            by_cases hy : y = DOT
            · right; simpa using fun h => hyz ⟨hy, h.symm⟩
            · left; simpa using fun h => hy h.symm
          simp [untoks, Tok.bytes, PAR, List.isPrefixOf, hb, hne, Res.bind]
      | y :: z :: w :: s', _ =>
        have hw' : wsep n w = false := h2 w (by simp)
        have hne : (y :: z :: w :: s') ≠ PAR := by simp [PAR]
        by_cases hyz : y = DOT ∧ z = DOT
        · obtain ⟨hy, hz⟩ := hyz
          subst hy; subst hz
          simp only [untoks, Tok.bytes, PAR, List.cons_append, ne_eq, reduceCtorEq, not_false_eq_true,
            List.isPrefixOf, beq_self_eq_true, Bool.and_self, and_self, if_true, List.length_cons,
            List.length_nil, List.drop_succ_cons, List.drop_zero, Res.bind]
          simp [index0, hw']
        · have hb : ((DOT == y) && (DOT == z)) = false := by
            rw [Bool.and_eq_false_iff]
            by_cases hy : y = DOT
            · right; simpa using fun h => hyz ⟨hy, h.symm⟩
            · left; simpa using fun h => hy h.symm
          simp [untoks, Tok.bytes, PAR, List.isPrefixOf, hb, Res.bind]

theorem normal_toks (n : Bool) {ts : List Tok} (hw : WFToks (wsep n) ts) :
    normal n (untoks ts) = match ts with
      | .seg s :: r => .ok (untoks r) (.normal s)
      | _ => .err := by
  unfold normal normalBytes
  rw [takeUntilByte1_eq]
  cases ts with
  | nil => simp [untoks, Res.bind]
  | cons t r =>
    cases t with
    | sep x =>
      have := span_notSegHead hw (by simp [notSegHead])
      rw [this.1]; simp [Res.bind]
    | seg s =>
      have := span_seg hw
      rw [this.1, this.2]
      simp [hw.1, Res.bind]

theorem filename_toks (n : Bool) {ts : List Tok} (hw : WFToks (wsep n) ts) :
    filename n (untoks ts) = match ts with
      | .seg s :: r => .ok (untoks r) (segComp (!n) s)
      | _ => .err := by
  unfold filename
  rw [parentDir_toks n hw, curDir_toks n hw, normal_toks n hw]
  cases ts with
  | nil => cases n <;> rfl
  | cons t r =>
    cases t with
    | sep x => cases n <;> rfl
    | seg s =>
      simp only [segComp]
      have hcp : CUR ≠ PAR := by decide
      by_cases h1 : s = PAR
      · simp [h1]
      · by_cases h2 : s = CUR
        · subst h2; cases n <;> simp [hcp]
        · cases n <;> simp [h1, h2]

theorem head_atBeg (n : Bool) {ts : List Tok} (hw : WFToks (wsep n) ts) :
    anyOf [rootDir n, curDir n, filename n] (untoks ts) = match ts with
      | [] => .err
      | .sep _ :: r => .ok (untoks r) .root
      | .seg s :: r => .ok (untoks r) (segComp true s) := by
  simp only [anyOf, rootDir_toks n hw, curDir_toks n hw, filename_toks n hw]
  cases ts with
  | nil => rfl
  | cons t r =>
    cases t with
    | sep x => rfl
    | seg s =>
      simp only [segComp]
      have hcp : CUR ≠ PAR := by decide
      by_cases h2 : s = CUR
      · subst h2; simp [hcp]
      · by_cases h1 : s = PAR
        · subst h1; simp [hcp.symm]
        · simp [h1, h2]

/-! ### `move_front_to_next` -/

/-- one step of the junk-eating parsers, on tokens -/
def junkStep (k : Bool) : List Tok → Res Unit
  | t :: r => if junk k t = true then .ok (untoks r) () else .err
  | [] => .err

/-- the parser under `zero_or_more` when normalizing: one separator or one `.` -/
def junkP (n : Bool) : P Unit := anyOf [separator n, map (curDir n) (fun _ => ())]

theorem junkP_toks (n : Bool) {ts : List Tok} (hw : WFToks (wsep n) ts) :
    junkP n (untoks ts) = junkStep false ts := by
  simp only [junkP, anyOf, map, separator_toks n hw, curDir_toks n hw, junkStep]
  cases ts with
  | nil => rfl
  | cons t r =>
    cases t with
    | sep x => simp [junk]
    | seg s =>
      by_cases h : s = CUR
      · simp [junk, h, Res.bind]
      · simp [junk, h, Res.bind]

theorem sepP_toks (n : Bool) {ts : List Tok} (hw : WFToks (wsep n) ts) :
    separator n (untoks ts) = junkStep true ts := by
  rw [separator_toks n hw]
  unfold junkStep
  cases ts with
  | nil => rfl
  | cons t r =>
    cases t with
    | sep x => simp [junk]
    | seg s => simp [junk]

/-- the loop of `one_or_more` over a parser that eats exactly one junk token -/
theorem loop_toks (n k : Bool) (p : P Unit)
    (hp : ∀ {ts : List Tok}, WFToks (wsep n) ts → p (untoks ts) = junkStep k ts) :
    ∀ (ts : List Tok), WFToks (wsep n) ts → ∀ (fuel : Nat) (acc : List Unit),
    (ts.takeWhile (junk k)).length + 1 ≤ fuel →
    oneOrMoreLoop p fuel (untoks ts) acc =
      .ok (untoks (skipFront k ts)) (acc ++ List.replicate (ts.takeWhile (junk k)).length ())
  | [], _, fuel, acc, hf => by
    cases fuel with
    | zero => simp at hf
    | succ f =>
      have hj := hp (ts := []) trivial
      simp only [untoks, junkStep] at hj
      simp [oneOrMoreLoop, hj, skipFront, untoks]
  | t :: r, hw, fuel, acc, hf => by
    cases fuel with
    | zero => simp at hf
    | succ f =>
      simp only [oneOrMoreLoop, hp hw, junkStep]
      by_cases hj : junk k t = true
      · simp only [hj, if_true]
        simp only [List.takeWhile_cons, hj, if_true, List.length_cons] at hf ⊢
        rw [loop_toks n k p hp r (WFToks_tail hw) f (acc ++ [()]) (by omega)]
        simp [skipFront, List.dropWhile_cons, hj, List.replicate_succ]
      · simp only [hj, Bool.false_eq_true, if_false]
        simp [skipFront, List.dropWhile_cons, List.takeWhile_cons, hj]

theorem zeroOrMore_toks (n k : Bool) (p : P Unit)
    (hp : ∀ {ts : List Tok}, WFToks (wsep n) ts → p (untoks ts) = junkStep k ts)
    {ts : List Tok} (hw : WFToks (wsep n) ts) :
    map (zeroOrMore p) (fun _ => ()) (untoks ts) = .ok (untoks (skipFront k ts)) () := by
  have hfuel : (ts.takeWhile (junk k)).length + 1 ≤ (untoks ts).length + 1 := by
    have h1 := takeWhile_length_le (junk k) ts
    have h2 := length_le_untoks hw
    omega
  have hl := loop_toks n k p hp ts hw ((untoks ts).length + 1) [] hfuel
  simp only [map, zeroOrMore, maybe, oneOrMore, hl]
  cases hn : (ts.takeWhile (junk k)).length with
  | zero =>
    have ht : ts.takeWhile (junk k) = [] := List.length_eq_zero_iff.mp hn
    have hs : skipFront k ts = ts := by
      have := List.takeWhile_append_dropWhile (p := junk k) (l := ts)
      rw [ht, List.nil_append] at this
      exact this
    simp [Res.bind, hs]
  | succ m =>
    simp [Res.bind, List.replicate_succ]

theorem moveFrontToNext_toks (n : Bool) {ts : List Tok} (hw : WFToks (wsep n) ts) :
    moveFrontToNext n (untoks ts) = .ok (untoks (skipFront (!n) ts)) () := by
  cases n with
  | true =>
    simp only [moveFrontToNext, if_true, Bool.not_true]
    exact zeroOrMore_toks true false (junkP true) (fun h => junkP_toks true h) hw
  | false =>
    simp only [moveFrontToNext, Bool.false_eq_true, if_false, Bool.not_false]
    exact zeroOrMore_toks false true (separator false) (fun h => sepP_toks false h) hw

theorem parseFront_toks (atBeg n : Bool) {ts : List Tok} (hw : WFToks (wsep n) ts) :
    parseFront atBeg n (untoks ts) = match frontT (!n) atBeg ts with
      | some (c, ts') => .ok (untoks ts') c
      | none => .err := by
  cases atBeg with
  | true =>
    simp only [parseFront, if_true, suffixed, head_atBeg n hw]
    cases ts with
    | nil => rfl
    | cons t r =>
      have hr := WFToks_tail hw
      cases t with
      | sep x => simp [frontT, Res.bind, moveFrontToNext_toks n hr]
      | seg s => simp [frontT, Res.bind, moveFrontToNext_toks n hr]
  | false =>
    simp only [parseFront, Bool.false_eq_true, if_false, suffixed, filename_toks n hw]
    cases ts with
    | nil => rfl
    | cons t r =>
      have hr := WFToks_tail hw
      cases t with
      | sep x => simp [frontT, Res.bind]
      | seg s => simp [frontT, Res.bind, moveFrontToNext_toks n hr]

/-! ### `move_back_to_next` and `parse_back` -/

theorem rstrip_seps_toks (n : Bool) {ts : List Tok} (hw : WFToks (wsep n) ts) :
    ∃ v, rtakeUntilByte (fun b => !wsep n b) (untoks ts) = .ok (untoks (skipBack true ts)) v := by
  obtain ⟨j, hs, hj⟩ := skipBack_split true ts
  have hw' : WFToks (wsep n) (skipBack true ts ++ j) := by rw [← hs]; exact hw
  have hwc : WFToks (wsep n) (skipBack true ts) := WFToks_prefix _ hw'
  have hwj : WFToks (wsep n) j := WFToks_suffix _ hw'
  have hb := untoks_all_sep hwj hj
  have ha := Unix.untoks_last_nonsep hwc (Unix.skipBack_true_shape ts)
  have key := rspan_bytes (fun x => !(!wsep n x)) (untoks (skipBack true ts)) (untoks j)
    (by intro y hy; simp [hb y hy])
    (by
      rcases ha with h | ⟨a0, y, h, hy⟩
      · exact Or.inl h
      · exact Or.inr ⟨a0, y, h, by simp [hy]⟩)
  have hu : untoks ts = untoks (skipBack true ts) ++ untoks j := by
    conv => lhs; rw [hs]
    exact untoks_append _ _
  refine ⟨untoks j, ?_⟩
  rw [rtakeUntilByte_eq, hu, key.1, key.2]

theorem moveBackLoop_nil (n : Bool) (f : Nat) : moveBackLoop n (f + 1) [] = .ok [] () := by
  simp [moveBackLoop]

theorem endsWithSeparator_snoc (n : Bool) (a : Bytes) (x : UInt8) :
    endsWithSeparator (a ++ [x]) n = wsep n x := by
  simp [endsWithSeparator]

/-- not normalizing: one pass, trailing separators only -/
theorem moveBackLoop_verbatim {ts : List Tok} (hw : WFToks (wsep false) ts) (f : Nat) :
    moveBackLoop false (f + 1) (untoks ts) = .ok (untoks (skipBack true ts)) () := by
  by_cases hts : ts = []
  · subst hts; simp [moveBackLoop, untoks, skipBack]
  · have hne : untoks ts ≠ [] := fun h => hts (Unix.untoks_eq_nil hw h)
    obtain ⟨v, hv⟩ := rstrip_seps_toks false hw
    simp [moveBackLoop, hne, hv, Res.bind]

theorem moveBackLoop_toks : ∀ (m : Nat) (ts : List Tok), ts.length ≤ m → WFToks (wsep true) ts →
    ∀ fuel, ts.length + 1 ≤ fuel →
    moveBackLoop true fuel (untoks ts) = .ok (untoks (skipBack false ts)) () := by
  intro m
  induction m with
  | zero =>
    intro ts hn hw fuel hf
    have : ts = [] := List.length_eq_zero_iff.mp (by omega)
    subst this
    cases fuel with
    | zero => omega
    | succ f => simp [moveBackLoop, untoks, skipBack]
  | succ m ih =>
    intro ts hn hw fuel hf
    cases fuel with
    | zero => omega
    | succ f =>
      by_cases hts : ts = []
      · subst hts; simp [moveBackLoop, untoks, skipBack]
      · have hne : untoks ts ≠ [] := fun h => hts (Unix.untoks_eq_nil hw h)
        have htl : 0 < ts.length := List.length_pos_iff.mpr hts
        obtain ⟨v, hv⟩ := rstrip_seps_toks true hw
        simp only [moveBackLoop, List.isEmpty_iff, hne, if_false, hv, Res.bind, Bool.not_true,
          Bool.false_eq_true]
        obtain ⟨j, hs, hj⟩ := skipBack_split true ts
        have hjf : ∀ t ∈ j, junk false t = true := fun t ht => junk_false_of_true (hj t ht)
        have hw' : WFToks (wsep true) (skipBack true ts ++ j) := by rw [← hs]; exact hw
        have hwc : WFToks (wsep true) (skipBack true ts) := WFToks_prefix _ hw'
        rcases Unix.skipBack_true_shape ts with hc | ⟨c0, s, hc⟩
        · have hall : skipBack false ts = [] := by
            apply skipBack_all_junk
            rw [hs, hc]; intro t ht
            exact hjf t (by simpa using ht)
          rw [hc, hall]
          simp [untoks, stripSuffix_nil, CUR]
        · rw [hc] at hwc hs
          obtain ⟨s0, y, hsy, hy, hu⟩ := untoks_snoc_seg hwc
          have hsmem := WF_mem_seg hwc s (by simp)
          have stop : s ≠ CUR → skipBack false ts = c0 ++ [.seg s] := fun hsc =>
            skipBack_of_split hs hjf (Or.inr ⟨c0, .seg s, rfl, by simp [junk, hsc]⟩)
          rw [hc, hu, show CUR = [DOT] from rfl, stripSuffix_snoc]
          by_cases hyd : y = DOT
          · subst hyd
            simp only [if_true]
            rcases List.eq_nil_or_concat s0 with hs0 | ⟨s00, z, hs0⟩
            · subst hs0
              simp only [List.nil_append, List.append_nil] at hsy ⊢
              have hjunk' : ∀ t ∈ [Tok.seg s] ++ j, junk false t = true := by
                intro t ht
                rcases List.mem_append.mp ht with h | h
                · simp at h; subst h; simp [junk, hsy, CUR]
                · exact hjf t h
              have hs' : ts = c0 ++ ([Tok.seg s] ++ j) := by rw [hs]; simp
              rcases WF_before_seg hwc with hc0 | ⟨c00, x, hc0⟩
              · subst hc0
                have hall : skipBack false ts = [] := by
                  apply skipBack_all_junk
                  rw [hs']; simpa using hjunk'
                rw [hall]
                cases f with
                | zero => omega
                | succ f' => simp [untoks, endsWithSeparator, moveBackLoop_nil]
              · subst hc0
                have hx : wsep true x = true := WF_mem_sep hwc x (by simp)
                have hun : untoks (c00 ++ [Tok.sep x]) = untoks c00 ++ [x] := by
                  rw [untoks_append]; simp [untoks, Tok.bytes]
                have hwc0 : WFToks (wsep true) (c00 ++ [Tok.sep x]) := WFToks_prefix _ hwc
                have hlen : (c00 ++ [Tok.sep x]).length < ts.length := by
                  rw [hs']; simp
                rw [hun, endsWithSeparator_snoc, hx]
                simp only [if_true]
                rw [← hun, ih _ (by omega) hwc0 f (by omega)]
                rw [hs', skipBack_append_junk _ _ hjunk']
            · rw [List.concat_eq_append] at hs0
              subst hs0
              have hz : wsep true z = false := hsmem.2 z (by rw [hsy]; simp)
              have hsc : s ≠ CUR := by
                rw [hsy]; intro h
                have := congrArg List.length h
                simp [CUR] at this
              rw [← List.append_assoc, endsWithSeparator_snoc, hz]
              simp only [Bool.false_eq_true, if_false, List.isEmpty_iff,
                List.append_eq_nil_iff, List.cons_ne_self, and_false, reduceCtorEq]
              rw [stop hsc, hu]
              simp
          · simp only [hyd, if_false]
            have hsc : s ≠ CUR := by
              rw [hsy]; intro h
              have := congrArg List.getLast? h
              simp [CUR] at this
              exact hyd this
            rw [stop hsc, hu]

theorem moveBackToNext_toks (n : Bool) {ts : List Tok} (hw : WFToks (wsep n) ts) :
    moveBackToNext n (untoks ts) = .ok (untoks (skipBack (!n) ts)) () := by
  unfold moveBackToNext
  cases n with
  | true =>
    exact moveBackLoop_toks ts.length ts (Nat.le_refl _) hw _ (by have := length_le_untoks hw; omega)
  | false => exact moveBackLoop_verbatim hw _

theorem rtake1_last_seg (n : Bool) {c0 : List Tok} {s : Bytes} (hw : WFToks (wsep n) (c0 ++ [.seg s])) :
    rtakeUntilByte1 (wsep n) (untoks (c0 ++ [.seg s])) = .ok (untoks c0) s := by
  rw [rtakeUntilByte1_eq]
  have hsm := WF_mem_seg hw s (by simp)
  have hwc0 : WFToks (wsep n) c0 := WFToks_prefix _ hw
  have ha := Unix.untoks_last_sep hwc0 (WF_before_seg hw)
  have key := rspan_bytes (fun x => !wsep n x) (untoks c0) s
    (by intro y hy; simp [hsm.2 y hy])
    (by
      rcases ha with h | ⟨a0, y, h, hy⟩
      · exact Or.inl h
      · exact Or.inr ⟨a0, y, h, by simp [hy]⟩)
  have hu : untoks (c0 ++ [.seg s]) = untoks c0 ++ s := by
    rw [untoks_append]; simp [untoks, Tok.bytes]
  have hne : (untoks c0 ++ s).reverse.takeWhile (fun x => !wsep n x) ≠ [] := by
    intro h
    have := key.2
    rw [h] at this
    exact hsm.1 (by simpa using this.symm)
  rw [hu]
  simp only [hne, if_false, key.1, key.2]

theorem fullyConsumed_seg (n : Bool) {s : Bytes} (h1 : s ≠ []) (h2 : ∀ y ∈ s, wsep n y = false) :
    fullyConsumed (filename n) s = .ok [] (segComp (!n) s) := by
  have hw : WFToks (wsep n) [.seg s] := ⟨h1, h2, trivial, trivial⟩
  have := filename_toks n hw
  simp only [untoks, Tok.bytes, List.append_nil] at this
  simp [fullyConsumed, this, Res.bind, empty]

theorem orOk_start (n : Bool) {γ : Type} {c0 : List Tok} (hw : WFToks (wsep n) c0) (k : Bool → Res γ) :
    orOk (rootDir n (untoks c0)) (fun _ => curDir n (untoks c0)) k = k (startsRootOrCur c0) := by
  rw [rootDir_toks n hw, curDir_toks n hw]
  cases c0 with
  | nil => rfl
  | cons t r =>
    cases t with
    | sep x => rfl
    | seg s =>
      by_cases h : s = CUR
      · simp [orOk, startsRootOrCur, h]
      · simp [orOk, startsRootOrCur, h]

theorem untoks_take_one (n : Bool) {c0 : List Tok} (h : startsRootOrCur c0 = true) :
    sliceTo (untoks c0) 1 = some (untoks (c0.take 1)) := by
  cases c0 with
  | nil => simp [startsRootOrCur] at h
  | cons t r =>
    cases t with
    | sep x => simp [sliceTo, untoks, Tok.bytes]
    | seg s =>
      have : s = CUR := by simpa [startsRootOrCur] using h
      subst this
      simp [sliceTo, untoks, Tok.bytes, CUR]

theorem parseBack_toks (atBeg n : Bool) {ts : List Tok} (hw : WFToks (wsep n) ts) :
    parseBack atBeg n (untoks ts) = match backT (!n) atBeg ts with
      | some (c, ts') => .ok (untoks ts') c
      | none => .err := by
  unfold parseBack backT
  simp only [moveBackToNext_toks n hw, Res.bind]
  have hwt1 : WFToks (wsep n) (skipBack (!n) ts) := by
    obtain ⟨j, hs, _⟩ := skipBack_split (!n) ts
    have : WFToks (wsep n) (skipBack (!n) ts ++ j) := by rw [← hs]; exact hw
    exact WFToks_prefix _ this
  have hemp : (untoks (skipBack (!n) ts)).isEmpty = decide (skipBack (!n) ts = []) := by
    by_cases h : skipBack (!n) ts = []
    · simp [h, untoks]
    · have : untoks (skipBack (!n) ts) ≠ [] := fun h' => h (Unix.untoks_eq_nil hwt1 h')
      simp [h, this]
  rw [hemp]
  by_cases hcond : atBeg = true ∧ skipBack (!n) ts = []
  · obtain ⟨hb, ht⟩ := hcond
    simp only [hb, ht, decide_true, Bool.and_self, if_true, and_self]
    rw [parseFront_toks true n hw]
    cases frontT (!n) true ts with
    | none => rfl
    | some p => obtain ⟨c, ts'⟩ := p; rfl
  · have hc1 : (atBeg && decide (skipBack (!n) ts = [])) = false := by
      cases atBeg with
      | false => rfl
      | true =>
        have : skipBack (!n) ts ≠ [] := fun h => hcond ⟨rfl, h⟩
        simp [this]
    simp only [hc1, Bool.false_eq_true, if_false, hcond]
    -- the last token of the trimmed list is a segment (not junk)
    rcases List.eq_nil_or_concat (skipBack (!n) ts) with ht | ⟨c0, t, ht⟩
    · rw [ht]
      simp [untoks, rtakeUntilByte1_eq, Res.bind]
    · rw [List.concat_eq_append] at ht
      have hl : (skipBack (!n) ts).getLast? = some t := by rw [ht]; simp
      have hjt := skipBack_getLast hl
      cases t with
      | sep x => simp [junk] at hjt
      | seg s =>
        rw [ht] at hwt1 ⊢
        have hsm := WF_mem_seg hwt1 s (by simp)
        have hwc0 : WFToks (wsep n) c0 := WFToks_prefix _ hwt1
        rw [rtake1_last_seg n hwt1]
        simp only [Res.bind, fullyConsumed_seg n hsm.1 hsm.2, List.getLast?_concat, List.dropLast_concat]
        have hmb := moveBackToNext_toks n hwc0
        cases atBeg with
        | false =>
          simp [hmb, Res.bind]
        | true =>
          simp only [if_true, true_and]
          rw [orOk_start n hwc0]
          by_cases hst : startsRootOrCur c0 = true
          · simp only [hst, if_true, true_and, consumedCnt, hmb, Res.bind]
            obtain ⟨j', hs', _⟩ := skipBack_split (!n) c0
            have hlen : (untoks c0).length = (untoks (skipBack (!n) c0)).length + (untoks j').length := by
              conv => lhs; rw [hs', untoks_append]
              simp
            have hle : (untoks (skipBack (!n) c0)).length ≤ (untoks c0).length := by omega
            simp only [checkedSub, hle, if_true]
            have hwr : WFToks (wsep n) (skipBack (!n) c0) := by
              have : WFToks (wsep n) (skipBack (!n) c0 ++ j') := by rw [← hs']; exact hwc0
              exact WFToks_prefix _ this
            by_cases hr : skipBack (!n) c0 = []
            · simp [hr, untoks, untoks_take_one n hst]
            · have hne : untoks (skipBack (!n) c0) ≠ [] := fun h' => hr (Unix.untoks_eq_nil hwr h')
              have hpos : 0 < (untoks (skipBack (!n) c0)).length := List.length_pos_iff.mpr hne
              have : ¬ (untoks c0).length = (untoks c0).length - (untoks (skipBack (!n) c0)).length := by omega
              simp [this, hr]
          · have hst' : startsRootOrCur c0 = false := by simpa using hst
            simp [hst', hmb, Res.bind]

end TP.Comb.Windows
