/-
Lemmas/WinVerbatim.lean — Windows bases with a VERBATIM prefix: `push` rebuilds the path from a
component buffer (`verbatimFold`) and renders it with `\` (`verbatimRender`).  Here: the rendered
bytes re-parse to the buffer (with the root after the prefix written out), for every complete
verbatim prefix and every buffer made of the prefix, an optional root, and single-segment items.
-/
import TypedPathVerif.Lemmas.WinAppend

namespace TP.Win

open TP TP.JoinRules

/-- a component that renders to one segment and re-parses to itself under the separator set of a
path whose `normalize` flag is `n` (`.` is a component only when not normalising) -/
def Item (n : Bool) (c : Comp) : Prop :=
  (c = .cur ∧ n = false) ∨ c = .parent ∨
    ∃ s, c = .normal s ∧ s ≠ [] ∧ (∀ y ∈ s, wsep n y = false) ∧ s ≠ CUR ∧ s ≠ PAR

theorem Item.seg {n : Bool} {c : Comp} (h : Item n c) :
    c.bytes .windows ≠ [] ∧ (∀ y ∈ c.bytes .windows, wsep n y = false) ∧
      tokComp (!n) (.seg (c.bytes .windows)) = some c ∧ c ≠ .root ∧ (∀ p, c ≠ .pfx p) := by
  rcases h with ⟨hc, hn⟩ | hc | ⟨s, hc, h1, h2, h3, h4⟩
  · subst hc; subst hn
    refine ⟨by simp [Comp.bytes, CUR], ?_, by decide, by simp, by simp⟩
    intro y hy; simp only [Comp.bytes, CUR, List.mem_singleton] at hy; subst hy; decide
  · subst hc
    refine ⟨by simp [Comp.bytes, PAR], ?_, ?_, by simp, by simp⟩
    · intro y hy
      simp only [Comp.bytes, PAR, List.mem_cons, List.not_mem_nil, or_false, or_self] at hy
      subst hy; cases n <;> decide
    · cases n <;> decide
  · subst hc
    refine ⟨h1, h2, ?_, by simp, by simp⟩
    simp only [Comp.bytes, tokComp, junk, h3, decide_false, Bool.and_false, Bool.false_eq_true, if_false,
      segComp, h4, false_and]

/-- `\` then the item's text, for every item -/
def renderItems : List Comp → Bytes
  | [] => []
  | c :: cs => [BSLASH] ++ c.bytes .windows ++ renderItems cs

/-- the tokens of that rendering -/
def itemToks : List Comp → List Tok
  | [] => []
  | c :: cs => .sep BSLASH :: .seg (c.bytes .windows) :: itemToks cs

theorem wsep_bslash (n : Bool) : wsep n BSLASH = true := by cases n <;> decide

theorem itemToks_notSegHead (cs : List Comp) : notSegHead (itemToks cs) := by
  cases cs <;> simp [itemToks, notSegHead]

theorem toks_renderItems (n : Bool) : ∀ (cs : List Comp), (∀ c ∈ cs, Item n c) →
    toks (wsep n) (renderItems cs) = itemToks cs := by
  intro cs
  induction cs with
  | nil => intro _; rfl
  | cons c cs ih =>
    intro h
    obtain ⟨h1, h2, _, _, _⟩ := (h c (by simp)).seg
    have ih' := ih (fun x hx => h x (by simp [hx]))
    simp only [renderItems, itemToks, List.singleton_append, List.cons_append, List.nil_append, toks, wsep_bslash,
      if_true]
    rw [toks_append_seg (wsep n) _ (renderItems cs) (itemToks cs) h1 h2 ih' (itemToks_notSegHead cs)]

theorem body_itemToks (n : Bool) : ∀ (cs : List Comp), (∀ c ∈ cs, Item n c) → body (!n) (itemToks cs) = cs := by
  intro cs
  induction cs with
  | nil => intro _; rfl
  | cons c cs ih =>
    intro h
    obtain ⟨_, _, h3, _, _⟩ := (h c (by simp)).seg
    have ih' := ih (fun x hx => h x (by simp [hx]))
    simp only [itemToks]
    rw [body_cons_junk _ (by rfl)]
    unfold body at ih' ⊢
    rw [List.filterMap_cons_some h3, ih']

/-- does a separator precede the component after `c`? (the `need_sep` flag) -/
def nextSep : Comp → Bool
  | .root => false
  | .pfx p => (match p.kind with | .disk _ => false | _ => true)
  | _ => true

theorem verbatimRender_cons (ns : Bool) (c : Comp) (cs : List Comp) :
    verbatimRender ns (c :: cs) =
      (if ns ∧ c ≠ .root then [BSLASH] else []) ++ c.bytes .windows ++ verbatimRender (nextSep c) cs := by
  cases c with
  | pfx p => simp only [verbatimRender, nextSep]; cases p.kind <;> rfl
  | _ => rfl

theorem nextSep_item {c : Comp} (hr : c ≠ .root) (hp : ∀ p, c ≠ .pfx p) : nextSep c = true := by
  cases c with
  | root => exact absurd rfl hr
  | pfx p => exact absurd rfl (hp p)
  | _ => rfl

theorem nextSep_verbatim {p : PrefixComp} (hv : isVerbatimKind p.kind = true) : nextSep (.pfx p) = true := by
  simp only [nextSep]
  cases hk : p.kind <;> first | rfl | (rw [hk] at hv; cases hv)

theorem verbatimRender_items : ∀ (cs : List Comp), (∀ c ∈ cs, c ≠ .root ∧ ∀ p, c ≠ .pfx p) →
    verbatimRender true cs = renderItems cs := by
  intro cs
  induction cs with
  | nil => intro _; rfl
  | cons c cs ih =>
    intro h
    obtain ⟨hr, hp⟩ := h c (by simp)
    rw [verbatimRender_cons, nextSep_item hr hp, ih (fun x hx => h x (by simp [hx]))]
    simp [renderItems, hr]

/-- what the rendering of `items` after the prefix re-parses to: a root, then the items -/
theorem compsT_renderItems (n : Bool) (cs : List Comp) (h : ∀ c ∈ cs, Item n c) (hne : cs ≠ []) :
    compsT (!n) true (toks (wsep n) (renderItems cs)) = .root :: cs := by
  rw [toks_renderItems n cs h]
  cases cs with
  | nil => exact absurd rfl hne
  | cons c cs' =>
    simp only [itemToks, compsT_true_cons, headComp]
    have := body_itemToks n (c :: cs') h
    simp only [itemToks] at this
    rw [body_cons_junk _ (by rfl)] at this
    rw [this]

/-- the buffer shapes that arise under a verbatim prefix: prefix, optional root, items -/
inductive VShape (n : Bool) (p : PrefixComp) : List Comp → Prop
  | bare (items : List Comp) : (∀ c ∈ items, Item n c) → VShape n p (.pfx p :: items)
  | rooted (items : List Comp) : (∀ c ∈ items, Item n c) → VShape n p (.pfx p :: .root :: items)

/-- the buffer with the root after the prefix written out (nothing to write when the prefix is
alone) -/
def withRoot : List Comp → List Comp
  | [.pfx p] => [.pfx p]
  | .pfx p :: .root :: r => .pfx p :: .root :: r
  | .pfx p :: r => .pfx p :: .root :: r
  | l => l

theorem isVerbatimKind_not_disk {k : WPrefix} (h : isVerbatimKind k = true) : ∀ d, k ≠ .disk d := by
  intro d hd; rw [hd] at h; cases h

/-- **Render then parse**: for a complete verbatim prefix, the rendered buffer re-parses to the
buffer with the root written out; the result is again a path with that (stable) prefix. -/
theorem render_parse {b rest : Bytes} {p : PrefixComp} (hp : parsePrefixComp b = some (p, rest))
    (hc : Complete p.kind) (hv : isVerbatimKind p.kind = true) (L : List Comp)
    (hL : VShape (normOf p.raw) p L) :
    comps .windows (verbatimRender false L) = withRoot L ∧
    ∃ rest', verbatimRender false L = p.raw ++ rest' ∧ parsePrefixComp (p.raw ++ rest') = some (p, rest') := by
  have hs := stable_of_complete hp hc
  have hneedSep := nextSep_verbatim hv
  -- rests that start with `\` (or are empty) are tolerated by every kind
  have hok : ∀ R : Bytes, (R = [] ∨ ∃ t, R = BSLASH :: t) → RestOK p R := by
    intro R hR
    unfold RestOK
    cases p.kind <;> first | trivial | (rcases hR with h | ⟨t, h⟩ <;> (subst h; first | trivial | exact wsep_bslash _))
  have fin : ∀ R : Bytes, (R = [] ∨ ∃ t, R = BSLASH :: t) →
      comps .windows (p.raw ++ R) = .pfx p :: compsT (!normOf p.raw) true (toks (wsep (normOf p.raw)) R) ∧
      parsePrefixComp (p.raw ++ R) = some (p, R) := by
    intro R hR
    exact ⟨comps_of_stable hs R (hok R hR), (hs R (hok R hR)).1⟩
  cases hL with
  | bare items hitems =>
    have hnr : ∀ c ∈ items, c ≠ .root ∧ ∀ q, c ≠ .pfx q := fun c hc' =>
      ⟨(hitems c hc').seg.2.2.2.1, (hitems c hc').seg.2.2.2.2⟩
    have hrender : verbatimRender false (.pfx p :: items) = p.raw ++ renderItems items := by
      rw [verbatimRender_cons, hneedSep, verbatimRender_items items hnr]
      simp [Comp.bytes]
    rw [hrender]
    cases items with
    | nil =>
      obtain ⟨h1, h2⟩ := fin [] (Or.inl rfl)
      refine ⟨?_, [], by simp [renderItems], by simpa using h2⟩
      simp only [renderItems, List.append_nil] at h1 ⊢
      rw [h1]; simp [toks, compsT, withRoot]
    | cons c cs =>
      have hR : renderItems (c :: cs) = [] ∨ ∃ t, renderItems (c :: cs) = BSLASH :: t :=
        Or.inr ⟨c.bytes .windows ++ renderItems cs, by simp [renderItems]⟩
      obtain ⟨h1, h2⟩ := fin _ hR
      refine ⟨?_, renderItems (c :: cs), rfl, h2⟩
      rw [h1, compsT_renderItems _ (c :: cs) hitems (by simp)]
      have hcr : c ≠ .root := (hitems c (by simp)).seg.2.2.2.1
      cases c <;> first | exact absurd rfl hcr | rfl
  | rooted items hitems =>
    have hnr : ∀ c ∈ items, c ≠ .root ∧ ∀ q, c ≠ .pfx q := fun c hc' =>
      ⟨(hitems c hc').seg.2.2.2.1, (hitems c hc').seg.2.2.2.2⟩
    cases items with
    | nil =>
      have hrender : verbatimRender false [.pfx p, .root] = p.raw ++ [BSLASH] := by
        rw [verbatimRender_cons, verbatimRender_cons]
        simp [Comp.bytes, Enc.sepByte, verbatimRender]
      rw [hrender]
      obtain ⟨h1, h2⟩ := fin [BSLASH] (Or.inr ⟨[], rfl⟩)
      refine ⟨?_, [BSLASH], rfl, h2⟩
      rw [h1]
      have : toks (wsep (normOf p.raw)) [BSLASH] = [.sep BSLASH] := by simp [toks, wsep_bslash]
      rw [this]; rfl
    | cons c cs =>
      obtain ⟨hcne, hcfree, hctok, hcr, hcp⟩ := (hitems c (by simp)).seg
      have hcs : ∀ x ∈ cs, Item (normOf p.raw) x := fun x hx => hitems x (by simp [hx])
      have hrender : verbatimRender false (.pfx p :: .root :: c :: cs) =
          p.raw ++ (BSLASH :: (c.bytes .windows ++ renderItems cs)) := by
        rw [verbatimRender_cons, hneedSep, verbatimRender_cons, verbatimRender_cons, nextSep_item hcr hcp,
          verbatimRender_items cs (fun x hx => hnr x (by simp [hx]))]
        simp [Comp.bytes, Enc.sepByte, nextSep]
      rw [hrender]
      obtain ⟨h1, h2⟩ := fin (BSLASH :: (c.bytes .windows ++ renderItems cs)) (Or.inr ⟨_, rfl⟩)
      refine ⟨?_, _, rfl, h2⟩
      rw [h1]
      have ht : toks (wsep (normOf p.raw)) (BSLASH :: (c.bytes .windows ++ renderItems cs)) =
          .sep BSLASH :: .seg (c.bytes .windows) :: itemToks cs := by
        simp only [toks, wsep_bslash, if_true]
        rw [toks_append_seg _ _ (renderItems cs) (itemToks cs) hcne hcfree (toks_renderItems _ cs hcs)
          (itemToks_notSegHead cs)]
      rw [ht, compsT_true_cons]
      have hb := body_itemToks (normOf p.raw) (c :: cs) hitems
      simp only [itemToks] at hb
      rw [body_cons_junk _ (by rfl)] at hb
      simp only [headComp, withRoot]
      rw [hb]

end TP.Win
