/-
Lemmas/Order.lean — comparison functions that are total orders, and their lexicographic
combinations (what `#[derive(Ord)]` and `Iterator::cmp` build).
-/
import TypedPathVerif.Model.Path

namespace TP

/-- `c` is a total preorder whose `.eq` is a congruence: the laws a derived `Ord` satisfies. -/
structure IsOrd {α : Type} (c : α → α → Ordering) : Prop where
  swap : ∀ a b, c b a = (c a b).swap
  trans_lt : ∀ a b d, c a b = .lt → c b d = .lt → c a d = .lt
  eq_congr : ∀ a b, c a b = .eq → ∀ x, c a x = c b x

namespace IsOrd

variable {α : Type} {c : α → α → Ordering}

theorem refl (h : IsOrd c) (a : α) : c a a = .eq := by
  have := h.swap a a
  cases hc : c a a <;> simp [hc, Ordering.swap] at this ⊢

theorem eq_symm (h : IsOrd c) {a b : α} (hab : c a b = .eq) : c b a = .eq := by
  rw [h.swap a b, hab]; rfl

theorem eq_congr_right (h : IsOrd c) {a b : α} (hab : c a b = .eq) (x : α) : c x a = c x b := by
  rw [h.swap a x, h.swap b x, h.eq_congr a b hab x]

theorem gt_iff_lt (h : IsOrd c) (a b : α) : c a b = .gt ↔ c b a = .lt := by
  rw [h.swap a b]
  cases c a b <;> simp [Ordering.swap]

/-- transitivity of `≤` (i.e. of "not greater") -/
theorem trans_le (h : IsOrd c) (a b d : α) (h1 : c a b ≠ .gt) (h2 : c b d ≠ .gt) : c a d ≠ .gt := by
  cases hab : c a b with
  | gt => exact absurd hab h1
  | eq => rw [h.eq_congr a b hab d]; exact h2
  | lt =>
    cases hbd : c b d with
    | gt => exact absurd hbd h2
    | eq => rw [← h.eq_congr_right hbd a, hab]; simp
    | lt => rw [h.trans_lt a b d hab hbd]; simp

theorem trans_eq (h : IsOrd c) (a b d : α) (h1 : c a b = .eq) (h2 : c b d = .eq) : c a d = .eq := by
  rw [h.eq_congr a b h1 d]; exact h2

end IsOrd

theorem isOrd_cmpNat : IsOrd cmpNat := by
  constructor
  · intro a b; unfold cmpNat
    by_cases h1 : a < b
    · have : ¬ b < a := by omega
      simp [h1, this, Ordering.swap]
    · by_cases h2 : b < a
      · simp [h1, h2, Ordering.swap]
      · simp [h1, h2, Ordering.swap]
  · intro a b d; unfold cmpNat
    intro h1 h2
    have hab : a < b := by
      by_cases h : a < b
      · exact h
      · simp [h] at h1; split at h1 <;> cases h1
    have hbd : b < d := by
      by_cases h : b < d
      · exact h
      · simp [h] at h2; split at h2 <;> cases h2
    have : a < d := by omega
    simp [this]
  · intro a b h x; unfold cmpNat at *
    have : a = b := by
      by_cases h1 : a < b
      · simp [h1] at h
      · by_cases h2 : b < a
        · simp [h1, h2] at h
        · omega
    subst this; rfl

theorem cmpNat_eq_iff (a b : Nat) : cmpNat a b = .eq ↔ a = b := by
  unfold cmpNat
  constructor
  · intro h
    by_cases h1 : a < b
    · simp [h1] at h
    · by_cases h2 : b < a
      · simp [h1, h2] at h
      · omega
  · intro h; subst h; simp

/-- lexicographic combination of two orders on a pair -/
theorem isOrd_then {α β : Type} {c1 : α → α → Ordering} {c2 : β → β → Ordering}
    (h1 : IsOrd c1) (h2 : IsOrd c2) :
    IsOrd (fun (x y : α × β) => (c1 x.1 y.1).then (c2 x.2 y.2)) := by
  constructor
  · intro a b
    try simp only
    rw [h1.swap a.1 b.1, h2.swap a.2 b.2]
    cases c1 a.1 b.1 <;> simp [Ordering.then, Ordering.swap]
  · intro a b d hab hbd
    try simp only at *
    cases e1 : c1 a.1 b.1 with
    | gt => simp [e1, Ordering.then] at hab
    | lt =>
      cases e2 : c1 b.1 d.1 with
      | gt => simp [e2, Ordering.then] at hbd
      | lt => simp [h1.trans_lt _ _ _ e1 e2, Ordering.then]
      | eq => rw [← h1.eq_congr_right e2 a.1, e1]; rfl
    | eq =>
      rw [h1.eq_congr _ _ e1 d.1]
      cases e2 : c1 b.1 d.1 with
      | gt => simp [e2, Ordering.then] at hbd
      | lt => rfl
      | eq =>
        simp only [e1, e2, Ordering.then] at hab hbd ⊢
        exact h2.trans_lt _ _ _ hab hbd
  · intro a b hab x
    try simp only at *
    cases e1 : c1 a.1 b.1 with
    | gt => simp [e1, Ordering.then] at hab
    | lt => simp [e1, Ordering.then] at hab
    | eq =>
      simp only [e1, Ordering.then] at hab
      rw [h1.eq_congr _ _ e1 x.1, h2.eq_congr _ _ hab x.2]

/-- lexicographic order on lists (`<[T] as Ord>::cmp`, `Iterator::cmp`) -/
def lexCmp {α : Type} (c : α → α → Ordering) : List α → List α → Ordering
  | [], [] => .eq
  | [], _ :: _ => .lt
  | _ :: _, [] => .gt
  | a :: as, b :: bs => (c a b).then (lexCmp c as bs)

theorem isOrd_lexCmp {α : Type} {c : α → α → Ordering} (h : IsOrd c) : IsOrd (lexCmp c) := by
  constructor
  · intro a
    induction a with
    | nil => intro b; cases b <;> rfl
    | cons x xs ih =>
      intro b
      cases b with
      | nil => rfl
      | cons y ys =>
        simp only [lexCmp]
        rw [h.swap x y, ih ys]
        cases c x y <;> simp [Ordering.then, Ordering.swap]
  · intro a
    induction a with
    | nil =>
      intro b d hab hbd
      cases b with
      | nil => simp [lexCmp] at hab
      | cons y ys =>
        cases d with
        | nil => simp [lexCmp] at hbd
        | cons z zs => rfl
    | cons x xs ih =>
      intro b d hab hbd
      cases b with
      | nil => simp [lexCmp] at hab
      | cons y ys =>
        cases d with
        | nil => simp [lexCmp] at hbd
        | cons z zs =>
          simp only [lexCmp] at *
          cases e1 : c x y with
          | gt => simp [e1, Ordering.then] at hab
          | lt =>
            cases e2 : c y z with
            | gt => simp [e2, Ordering.then] at hbd
            | lt => simp [h.trans_lt _ _ _ e1 e2, Ordering.then]
            | eq => rw [← h.eq_congr_right e2 x, e1]; rfl
          | eq =>
            rw [h.eq_congr _ _ e1 z]
            cases e2 : c y z with
            | gt => simp [e2, Ordering.then] at hbd
            | lt => rfl
            | eq =>
              simp only [e1, e2, Ordering.then] at hab hbd ⊢
              exact ih ys zs hab hbd
  · intro a
    induction a with
    | nil =>
      intro b hab x
      cases b with
      | nil => rfl
      | cons y ys => simp [lexCmp] at hab
    | cons x0 xs ih =>
      intro b hab x
      cases b with
      | nil => simp [lexCmp] at hab
      | cons y ys =>
        simp only [lexCmp] at hab
        cases e1 : c x0 y with
        | gt => simp [e1, Ordering.then] at hab
        | lt => simp [e1, Ordering.then] at hab
        | eq =>
          simp only [e1, Ordering.then] at hab
          cases x with
          | nil => rfl
          | cons z zs =>
            simp only [lexCmp]
            rw [h.eq_congr _ _ e1 z, ih ys hab zs]

theorem lexCmp_eq_iff {α : Type} {c : α → α → Ordering} (hc : ∀ a b, c a b = .eq ↔ a = b) :
    ∀ (a b : List α), lexCmp c a b = .eq ↔ a = b := by
  intro a
  induction a with
  | nil => intro b; cases b <;> simp [lexCmp]
  | cons x xs ih =>
    intro b
    cases b with
    | nil => simp [lexCmp]
    | cons y ys =>
      simp only [lexCmp, List.cons.injEq]
      cases e1 : c x y with
      | eq => simp [Ordering.then, ih ys, (hc x y).mp e1]
      | lt =>
        have : x ≠ y := fun h => by rw [(hc x y).mpr h] at e1; cases e1
        simp [Ordering.then, this]
      | gt =>
        have : x ≠ y := fun h => by rw [(hc x y).mpr h] at e1; cases e1
        simp [Ordering.then, this]

/-- order induced through an injection-free key function -/
theorem isOrd_comap {α β : Type} {c : β → β → Ordering} (h : IsOrd c) (f : α → β) :
    IsOrd (fun x y => c (f x) (f y)) :=
  ⟨fun a b => h.swap _ _, fun a b d => h.trans_lt _ _ _, fun a b hab x => h.eq_congr _ _ hab _⟩

end TP
