/-
Lemmas/DotSplit.lean — `rsplit_file_at_dot` as a pure list fact.
-/
import TypedPathVerif.Model.Path

namespace TP

theorem takeWhile_ne_not_mem (x : UInt8) (l : List UInt8) : x ∉ l.takeWhile (· ≠ x) := by
  induction l with
  | nil => simp
  | cons a l ih =>
    simp only [List.takeWhile_cons]
    split
    · rename_i h
      intro hm
      rcases List.mem_cons.mp hm with rfl | hm
      · simp at h
      · exact ih hm
    · simp

theorem dropWhile_ne_nil_iff (x : UInt8) (l : List UInt8) : l.dropWhile (· ≠ x) = [] ↔ x ∉ l := by
  induction l with
  | nil => simp
  | cons a l ih =>
    simp only [List.dropWhile_cons]
    split
    · rename_i h
      have hne : a ≠ x := by simpa using h
      rw [ih]
      simp [hne, Ne.symm hne]
    · rename_i h
      have : a = x := by simpa using h
      simp [this]

theorem dropWhile_ne_head (x : UInt8) (l : List UInt8) (y : UInt8) (r : List UInt8)
    (h : l.dropWhile (· ≠ x) = y :: r) : y = x := by
  have := List.head?_dropWhile_not (· ≠ x) l
  rw [h] at this
  simpa using this

/-- The documented split of a file name `f`:
* `..` has no extension and is its own stem;
* a name without a dot, or whose last dot is its first byte, has no extension and is its own stem;
* otherwise `f = before ++ "." ++ after` with `after` dot-free and `before` non-empty. -/
theorem rsplitDot_spec (f : Bytes) :
    (rsplitDot f = (some f, none) ∧ (f = PAR ∨ ∃ t, f = DOT :: t ∧ DOT ∉ t)) ∨
    (rsplitDot f = (none, some f) ∧ DOT ∉ f) ∨
    (∃ before after, rsplitDot f = (some before, some after) ∧ f = before ++ DOT :: after ∧
      DOT ∉ after ∧ before ≠ [] ∧ f ≠ PAR) := by
  unfold rsplitDot
  by_cases hp : f = PAR
  · left; simp [hp]
  · simp only [hp, if_false]
    have hsplit := List.takeWhile_append_dropWhile (p := (· ≠ DOT)) (l := f.reverse)
    cases hd : f.reverse.dropWhile (· ≠ DOT) with
    | nil =>
      right; left
      refine ⟨rfl, ?_⟩
      have := (dropWhile_ne_nil_iff DOT f.reverse).mp hd
      simpa using this
    | cons y beforeR =>
      have hy : y = DOT := dropWhile_ne_head DOT f.reverse y beforeR hd
      subst hy
      rw [hd] at hsplit
      have hf : f = beforeR.reverse ++ DOT :: (f.reverse.takeWhile (· ≠ DOT)).reverse := by
        have := congrArg List.reverse hsplit
        simp only [List.reverse_append, List.reverse_cons, List.reverse_reverse, List.append_assoc,
          List.singleton_append] at this
        exact this.symm
      have hnot : DOT ∉ (f.reverse.takeWhile (· ≠ DOT)).reverse := by
        rw [List.mem_reverse]; exact takeWhile_ne_not_mem DOT f.reverse
      simp only
      by_cases hb : beforeR = []
      · left
        subst hb
        simp only [if_true]
        refine ⟨trivial, Or.inr ⟨(f.reverse.takeWhile (· ≠ DOT)).reverse, ?_, hnot⟩⟩
        simpa using hf
      · right; right
        simp only [hb, if_false]
        exact ⟨beforeR.reverse, (f.reverse.takeWhile (· ≠ DOT)).reverse, rfl, hf, hnot, by simpa using hb, hp⟩

end TP
