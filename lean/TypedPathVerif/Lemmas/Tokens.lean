/-
Lemmas/Tokens.lean — facts about junk skipping and the closed form of forward iteration.
Core tactics only.
-/
import TypedPathVerif.Model.Parser

namespace TP

/-- The components of a token list that is *not* at the beginning of the path: every
non-junk segment, classified. -/
def tokComp (k : Bool) : Tok → Option Comp
  | .sep _ => none
  | .seg s => if junk k (.seg s) then none else some (segComp k s)

def body (k : Bool) (ts : List Tok) : List Comp := ts.filterMap (tokComp k)

theorem tokComp_junk {k : Bool} {t : Tok} (h : junk k t = true) : tokComp k t = none := by
  cases t with
  | sep b => rfl
  | seg s => simp [tokComp, h]

theorem tokComp_seg {k : Bool} {s : Bytes} (h : junk k (.seg s) = false) :
    tokComp k (.seg s) = some (segComp k s) := by
  simp [tokComp, h]

@[simp] theorem body_nil (k : Bool) : body k [] = [] := rfl

theorem body_append (k : Bool) (a b : List Tok) : body k (a ++ b) = body k a ++ body k b := by
  simp [body, List.filterMap_append]

theorem body_cons_junk {k : Bool} {t : Tok} (ts : List Tok) (h : junk k t = true) :
    body k (t :: ts) = body k ts := by
  simp [body, tokComp_junk h]

theorem body_cons_seg {k : Bool} {s : Bytes} (ts : List Tok) (h : junk k (.seg s) = false) :
    body k (.seg s :: ts) = segComp k s :: body k ts := by
  simp [body, tokComp_seg h]

theorem body_all_junk {k : Bool} {ts : List Tok} (h : ∀ t ∈ ts, junk k t = true) : body k ts = [] := by
  induction ts with
  | nil => rfl
  | cons t ts ih =>
    rw [body_cons_junk ts (h t (by simp))]
    exact ih (fun t ht => h t (by simp [ht]))

theorem body_skipFront (k : Bool) (ts : List Tok) : body k (skipFront k ts) = body k ts := by
  induction ts with
  | nil => rfl
  | cons t ts ih =>
    unfold skipFront at *
    simp only [List.dropWhile_cons]
    split
    · rename_i h
      rw [ih, body_cons_junk ts h]
    · rfl

/-- `ts` does not start with a junk token -/
def noLeadJunk (k : Bool) : List Tok → Prop
  | [] => True
  | t :: _ => junk k t = false

theorem noLeadJunk_skipFront (k : Bool) (ts : List Tok) : noLeadJunk k (skipFront k ts) := by
  induction ts with
  | nil => simp [skipFront, noLeadJunk]
  | cons t ts ih =>
    unfold skipFront at *
    simp only [List.dropWhile_cons]
    split
    · exact ih
    · rename_i h
      simpa [noLeadJunk] using h

theorem skipFront_all_junk {k : Bool} {ts : List Tok} (h : ∀ t ∈ ts, junk k t = true) :
    skipFront k ts = [] := by
  unfold skipFront
  induction ts with
  | nil => rfl
  | cons t ts ih =>
    simp only [List.dropWhile_cons, h t (by simp), if_true]
    exact ih (fun t ht => h t (by simp [ht]))

theorem mem_takeWhile_imp {α} {p : α → Bool} {l : List α} {x : α} (h : x ∈ l.takeWhile p) : p x = true := by
  induction l with
  | nil => simp at h
  | cons a l ih =>
    simp only [List.takeWhile_cons] at h
    split at h
    · rename_i ha
      rcases List.mem_cons.mp h with rfl | h'
      · exact ha
      · exact ih h'
    · simp at h

/-- `skipBack` keeps a prefix and drops an all-junk suffix. -/
theorem skipBack_split (k : Bool) (ts : List Tok) :
    ∃ j, ts = skipBack k ts ++ j ∧ ∀ t ∈ j, junk k t = true := by
  refine ⟨(ts.reverse.takeWhile (junk k)).reverse, ?_, ?_⟩
  · unfold skipBack
    rw [← List.reverse_append, List.takeWhile_append_dropWhile, List.reverse_reverse]
  · intro t ht
    rw [List.mem_reverse] at ht
    exact mem_takeWhile_imp ht

theorem skipBack_getLast {k : Bool} {ts : List Tok} {t : Tok}
    (h : (skipBack k ts).getLast? = some t) : junk k t = false := by
  unfold skipBack at h
  rw [List.getLast?_reverse] at h
  have := List.head?_dropWhile_not (junk k) ts.reverse
  rw [h] at this
  simpa using this

theorem skipBack_all_junk {k : Bool} {ts : List Tok} (h : ∀ t ∈ ts, junk k t = true) :
    skipBack k ts = [] := by
  unfold skipBack
  have : ts.reverse.dropWhile (junk k) = [] := by
    have := skipFront_all_junk (k := k) (ts := ts.reverse) (fun t ht => h t (List.mem_reverse.mp ht))
    simpa [skipFront] using this
  rw [this]; rfl

theorem body_skipBack (k : Bool) (ts : List Tok) : body k (skipBack k ts) = body k ts := by
  obtain ⟨j, hj, hjunk⟩ := skipBack_split k ts
  conv => rhs; rw [hj]
  rw [body_append, body_all_junk hjunk, List.append_nil]

theorem skipBack_eq_nil_iff {k : Bool} {ts : List Tok} :
    skipBack k ts = [] ↔ ∀ t ∈ ts, junk k t = true := by
  constructor
  · intro h
    obtain ⟨j, hj, hjunk⟩ := skipBack_split k ts
    rw [h, List.nil_append] at hj
    rw [hj]; exact hjunk
  · exact skipBack_all_junk

end TP
