/-
Lemmas/CombUnix.lean — the byte-level Unix parsers (`Model/Comb/Unix.lean`) computed on the
bytes of a well-formed token list: each equals the corresponding token-level function of
`Model/Parser.lean`, and none faults.
-/
import TypedPathVerif.Lemmas.CombCore
import TypedPathVerif.Lemmas.Reparse
import TypedPathVerif.Lemmas.Tokens

namespace TP.Comb

open TP

/-! ### generic facts about `untoks` of well-formed token lists -/

theorem untoks_append (a b : List Tok) : untoks (a ++ b) = untoks a ++ untoks b := by
  induction a with
  | nil => rfl
  | cons t a ih => simp [untoks, ih]

theorem span_all {α : Type} (p : α → Bool) (s t : List α) (h : ∀ y ∈ s, p y = true) :
    (s ++ t).takeWhile p = s ++ t.takeWhile p ∧ (s ++ t).dropWhile p = t.dropWhile p := by
  induction s with
  | nil => simp
  | cons y s ih =>
    have hy := h y (by simp)
    have := ih (fun z hz => h z (by simp [hz]))
    simp [List.takeWhile_cons, List.dropWhile_cons, hy, this]

/-- the bytes of a well-formed token list that does not start with a segment are empty or
start with a separator byte -/
theorem untoks_notSegHead {isSep : UInt8 → Bool} {ts : List Tok} (hw : WFToks isSep ts)
    (hn : notSegHead ts) : untoks ts = [] ∨ ∃ x r, untoks ts = x :: r ∧ isSep x = true := by
  cases ts with
  | nil => exact Or.inl rfl
  | cons t r =>
    cases t with
    | sep x => exact Or.inr ⟨x, untoks r, rfl, hw.1⟩
    | seg s => exact absurd hn (by simp [notSegHead])

theorem span_notSegHead {isSep : UInt8 → Bool} {ts : List Tok} (hw : WFToks isSep ts)
    (hn : notSegHead ts) :
    (untoks ts).takeWhile (fun x => !isSep x) = [] ∧
      (untoks ts).dropWhile (fun x => !isSep x) = untoks ts := by
  rcases untoks_notSegHead hw hn with h | ⟨x, r, h, hx⟩
  · rw [h]; simp
  · rw [h]; simp [List.takeWhile_cons, List.dropWhile_cons, hx]

theorem span_seg {isSep : UInt8 → Bool} {s : Bytes} {r : List Tok} (hw : WFToks isSep (.seg s :: r)) :
    (untoks (.seg s :: r)).takeWhile (fun x => !isSep x) = s ∧
      (untoks (.seg s :: r)).dropWhile (fun x => !isSep x) = untoks r := by
  obtain ⟨_, h2, h3, h4⟩ := hw
  have ha := span_all (fun x => !isSep x) s (untoks r) (fun y hy => by simp [h2 y hy])
  have hb := span_notSegHead h4 h3
  simp only [untoks, Tok.bytes]
  rw [ha.1, ha.2, hb.1, hb.2, List.append_nil]
  exact ⟨rfl, rfl⟩

/-- every token of a well-formed list has at least one byte -/
theorem length_le_untoks {isSep : UInt8 → Bool} : ∀ {ts : List Tok}, WFToks isSep ts → ts.length ≤ (untoks ts).length
  | [], _ => Nat.le_refl _
  | .sep x :: r, h => by
    have := length_le_untoks h.2
    simp [untoks, Tok.bytes]; omega
  | .seg s :: r, h => by
    have := length_le_untoks h.2.2.2
    have hs : 0 < s.length := List.length_pos_iff.mpr h.1
    simp [untoks, Tok.bytes]; omega

/-! ### snoc-style facts (for the backward parsers) -/

theorem WF_mem_sep {isSep : UInt8 → Bool} : ∀ {ts : List Tok}, WFToks isSep ts → ∀ x, Tok.sep x ∈ ts → isSep x = true
  | [], _, _, h => by simp at h
  | .sep y :: r, hw, x, h => by
    rcases List.mem_cons.mp h with h | h
    · cases h; exact hw.1
    · exact WF_mem_sep hw.2 x h
  | .seg s :: r, hw, x, h => by
    rcases List.mem_cons.mp h with h | h
    · cases h
    · exact WF_mem_sep hw.2.2.2 x h

theorem WF_mem_seg {isSep : UInt8 → Bool} : ∀ {ts : List Tok}, WFToks isSep ts → ∀ s, Tok.seg s ∈ ts →
    s ≠ [] ∧ ∀ y ∈ s, isSep y = false
  | [], _, _, h => by simp at h
  | .sep y :: r, hw, s, h => by
    rcases List.mem_cons.mp h with h | h
    · cases h
    · exact WF_mem_seg hw.2 s h
  | .seg s' :: r, hw, s, h => by
    rcases List.mem_cons.mp h with h | h
    · cases h; exact ⟨hw.1, hw.2.1⟩
    · exact WF_mem_seg hw.2.2.2 s h

/-- the token before a final segment is a separator -/
theorem WF_before_seg {isSep : UInt8 → Bool} : ∀ {c : List Tok} {s : Bytes}, WFToks isSep (c ++ [.seg s]) →
    c = [] ∨ ∃ c0 x, c = c0 ++ [.sep x]
  | [], _, _ => Or.inl rfl
  | [.sep x], _, _ => Or.inr ⟨[], x, rfl⟩
  | [.seg s'], s, hw => by
    exact absurd hw.2.2.1 (by simp [notSegHead])
  | t :: t' :: c, s, hw => by
    have := WF_before_seg (c := t' :: c) (s := s) (WFToks_tail hw)
    rcases this with h | ⟨c0, x, h⟩
    · cases h
    · exact Or.inr ⟨t :: c0, x, by rw [h]; rfl⟩

theorem junk_true_iff (t : Tok) : junk true t = true ↔ ∃ x, t = .sep x := by
  cases t with
  | sep x => simp [junk]
  | seg s => simp [junk]

theorem junk_false_of_true {t : Tok} (h : junk true t = true) : junk false t = true := by
  obtain ⟨x, rfl⟩ := (junk_true_iff t).mp h
  rfl

theorem untoks_all_sep {isSep : UInt8 → Bool} {j : List Tok} (hw : WFToks isSep j)
    (hj : ∀ t ∈ j, junk true t = true) : ∀ y ∈ untoks j, isSep y = true := by
  induction j with
  | nil => intro y hy; simp [untoks] at hy
  | cons t r ih =>
    obtain ⟨x, rfl⟩ := (junk_true_iff t).mp (hj t (by simp))
    intro y hy
    simp only [untoks, Tok.bytes, List.singleton_append, List.mem_cons] at hy
    rcases hy with rfl | hy
    · exact hw.1
    · exact ih hw.2 (fun t ht => hj t (by simp [ht])) y hy

/-- the bytes of a well-formed list that ends with a segment end with a non-separator byte -/
theorem untoks_snoc_seg {isSep : UInt8 → Bool} {c : List Tok} {s : Bytes} (hw : WFToks isSep (c ++ [.seg s])) :
    ∃ s0 y, s = s0 ++ [y] ∧ isSep y = false ∧ untoks (c ++ [.seg s]) = (untoks c ++ s0) ++ [y] := by
  obtain ⟨h1, h2⟩ := WF_mem_seg hw s (by simp)
  rcases List.eq_nil_or_concat s with h | ⟨s0, y, h⟩
  · exact absurd h h1
  · rw [List.concat_eq_append] at h
    refine ⟨s0, y, h, h2 y (by rw [h]; simp), ?_⟩
    rw [untoks_append, h]
    simp [untoks, Tok.bytes]

theorem skipBack_of_split {k : Bool} {ts c j : List Tok} (hs : ts = c ++ j) (hj : ∀ t ∈ j, junk k t = true)
    (hc : c = [] ∨ ∃ c0 t, c = c0 ++ [t] ∧ junk k t = false) : skipBack k ts = c := by
  subst hs
  unfold skipBack
  rw [List.reverse_append]
  have h1 := span_all (junk k) j.reverse c.reverse (fun t ht => hj t (List.mem_reverse.mp ht))
  rw [h1.2]
  rcases hc with rfl | ⟨c0, t, rfl, ht⟩
  · rfl
  · rw [List.reverse_concat, List.dropWhile_cons_of_neg (by simp [ht]), ← List.reverse_concat, List.reverse_reverse]

theorem skipBack_append_junk {k : Bool} (c j : List Tok) (hj : ∀ t ∈ j, junk k t = true) :
    skipBack k (c ++ j) = skipBack k c := by
  unfold skipBack
  rw [List.reverse_append]
  have h1 := span_all (junk k) j.reverse c.reverse (fun t ht => hj t (List.mem_reverse.mp ht))
  rw [h1.2]

/-- stripping from the back: `a` ends with a byte outside `p` (or is empty), `b` is inside `p` -/
theorem rspan_bytes {α : Type} (p : α → Bool) (a b : List α) (hb : ∀ y ∈ b, p y = true)
    (ha : a = [] ∨ ∃ a0 y, a = a0 ++ [y] ∧ p y = false) :
    ((a ++ b).reverse.dropWhile p).reverse = a ∧ ((a ++ b).reverse.takeWhile p).reverse = b := by
  rw [List.reverse_append]
  have h1 := span_all p b.reverse a.reverse (fun t ht => hb t (List.mem_reverse.mp ht))
  rw [h1.1, h1.2]
  rcases ha with rfl | ⟨a0, y, rfl, hy⟩
  · simp
  · rw [List.reverse_concat, List.dropWhile_cons_of_neg (by simp [hy])]
    simp [List.takeWhile_cons, hy]

theorem stripSuffix_nil (d : UInt8) : stripSuffix [] [d] = none := by
  simp [stripSuffix, List.isSuffixOf]

theorem suffix_singleton_snoc {α : Type} (a : List α) (y d : α) : [d] <:+ a ++ [y] ↔ y = d := by
  constructor
  · rintro ⟨t, ht⟩
    have := congrArg List.getLast? ht
    simpa using this.symm
  · rintro rfl; exact ⟨a, rfl⟩

theorem stripSuffix_snoc (a : Bytes) (y d : UInt8) :
    stripSuffix (a ++ [y]) [d] = if y = d then some a else none := by
  unfold stripSuffix
  by_cases h : y = d
  · have : [d].isSuffixOf (a ++ [y]) = true := List.isSuffixOf_iff_suffix.mpr ((suffix_singleton_snoc a y d).mpr h)
    simp [this, h]
  · have : [d].isSuffixOf (a ++ [y]) = false := by
      cases hh : [d].isSuffixOf (a ++ [y]) with
      | false => rfl
      | true => exact absurd ((suffix_singleton_snoc a y d).mp (List.isSuffixOf_iff_suffix.mp hh)) h
    simp [this, h]

theorem isSuffixOf_singleton_snoc (a : Bytes) (y d : UInt8) : [d].isSuffixOf (a ++ [y]) = decide (y = d) := by
  by_cases h : y = d
  · simp only [h, decide_true]
    exact List.isSuffixOf_iff_suffix.mpr ((suffix_singleton_snoc a d d).mpr rfl)
  · simp only [h, decide_false]
    cases hh : [d].isSuffixOf (a ++ [y]) with
    | false => rfl
    | true => exact absurd ((suffix_singleton_snoc a y d).mp (List.isSuffixOf_iff_suffix.mp hh)) h

namespace Unix

/-! ### the primitive parsers on token lists -/

theorem usep_iff (x : UInt8) : usep x = true ↔ x = SLASH := by simp [usep]

theorem separator_toks {ts : List Tok} (hw : WFToks usep ts) :
    separator (untoks ts) = match ts with
      | .sep _ :: r => .ok (untoks r) ()
      | _ => .err := by
  unfold separator
  rw [byte_eq]
  cases ts with
  | nil => rfl
  | cons t r =>
    cases t with
    | sep x =>
      have : x = SLASH := (usep_iff x).mp hw.1
      simp [untoks, Tok.bytes, this, Res.bind]
    | seg s =>
      obtain ⟨h1, h2, _, _⟩ := hw
      cases s with
      | nil => exact absurd rfl h1
      | cons y s' =>
        have : y ≠ SLASH := fun h => by
          have := h2 y (by simp); rw [h] at this; simp [usep] at this
        simp [untoks, Tok.bytes, this, Res.bind]

theorem rootDir_toks {ts : List Tok} (hw : WFToks usep ts) :
    rootDir (untoks ts) = match ts with
      | .sep _ :: r => .ok (untoks r) .root
      | _ => .err := by
  unfold rootDir
  rw [separator_toks hw]
  cases ts with
  | nil => rfl
  | cons t r => cases t <;> rfl

theorem normal_toks {ts : List Tok} (hw : WFToks usep ts) :
    normal (untoks ts) = match ts with
      | .seg s :: r => .ok (untoks r) (.normal s)
      | _ => .err := by
  unfold normal
  rw [takeUntilByte1_eq]
  cases ts with
  | nil => simp [untoks, Res.bind]
  | cons t r =>
    cases t with
    | sep x =>
      have := span_notSegHead hw (by simp [notSegHead])
      rw [this.1]; simp [Res.bind]
    | seg s =>
      have := span_seg hw
      rw [this.1, this.2]
      simp [hw.1, Res.bind]

/-- what follows a `.` / `..`: end of input or a separator (not consumed) -/
theorem after_dots_ok {r : List Tok} (hw : WFToks usep r) (hn : notSegHead r) :
    anyOf [empty, peek separator] (untoks r) = .ok (untoks r) () := by
  cases r with
  | nil => rfl
  | cons t r' =>
    cases t with
    | sep x =>
      have hs := separator_toks hw
      simp only at hs
      simp only [anyOf, empty, peek, hs, Res.bind]
      simp [untoks, Tok.bytes]
    | seg s => exact absurd hn (by simp [notSegHead])

theorem after_dots_err (y : UInt8) (rest : Bytes) (hy : usep y = false) :
    anyOf [empty, peek separator] (y :: rest) = .err := by
  have : y ≠ SLASH := fun h => by rw [h] at hy; simp [usep] at hy
  simp [anyOf, empty, peek, separator, byte_eq, this, Res.bind]

theorem dot_not_sep : usep DOT = false := by decide

theorem curDir_toks {ts : List Tok} (hw : WFToks usep ts) :
    curDir (untoks ts) = match ts with
      | .seg s :: r => if s = CUR then .ok (untoks r) .cur else .err
      | _ => .err := by
  unfold curDir suffixed
  rw [bytes_eq]
  cases ts with
  | nil => simp [untoks, Res.bind]
  | cons t r =>
    cases t with
    | sep x =>
      have : x = SLASH := (usep_iff x).mp hw.1
      subst this
      simp [untoks, Tok.bytes, CUR, List.isPrefixOf, Res.bind, SLASH, DOT]
    | seg s =>
      obtain ⟨h1, h2, h3, h4⟩ := hw
      match s, h1 with
      | [y], _ =>
        by_cases hy : y = DOT
        · subst hy
          simp only [untoks, Tok.bytes, CUR, List.cons_append, List.nil_append, ne_eq, reduceCtorEq,
            not_false_eq_true, List.isPrefixOf, beq_self_eq_true, Bool.and_self, and_self, if_true,
            List.length_cons, List.length_nil, List.drop_succ_cons, List.drop_zero, Res.bind]
          rw [after_dots_ok h4 h3]
        · have hne : [y] ≠ [DOT] := by simpa using hy
          have hb : (DOT == y) = false := by simpa using fun h => hy h.symm
          simp [untoks, Tok.bytes, CUR, List.isPrefixOf, hb, hne, Res.bind]
      | y :: z :: s', _ =>
        have hz : usep z = false := h2 z (by simp)
        have hne : (y :: z :: s') ≠ CUR := by simp [CUR]
        by_cases hy : y = DOT
        · subst hy
          simp only [untoks, Tok.bytes, CUR, List.cons_append, ne_eq, reduceCtorEq, not_false_eq_true,
            List.isPrefixOf, beq_self_eq_true, Bool.and_self, and_self, if_true, List.length_cons,
            List.length_nil, List.drop_succ_cons, List.drop_zero, Res.bind]
          rw [after_dots_err z _ hz]
          simp [CUR] at hne ⊢
        · have hb : (DOT == y) = false := by simpa using fun h => hy h.symm
          simp [untoks, Tok.bytes, CUR, List.isPrefixOf, hb, Res.bind]

theorem parentDir_toks {ts : List Tok} (hw : WFToks usep ts) :
    parentDir (untoks ts) = match ts with
      | .seg s :: r => if s = PAR then .ok (untoks r) .parent else .err
      | _ => .err := by
  unfold parentDir suffixed
  rw [bytes_eq]
  cases ts with
  | nil => simp [untoks, Res.bind]
  | cons t r =>
    cases t with
    | sep x =>
      have : x = SLASH := (usep_iff x).mp hw.1
      subst this
      simp [untoks, Tok.bytes, PAR, List.isPrefixOf, Res.bind, SLASH, DOT]
    | seg s =>
      obtain ⟨h1, h2, h3, h4⟩ := hw
      match s, h1 with
      | [y], _ =>
        have hne : [y] ≠ PAR := by simp [PAR]
        rcases untoks_notSegHead h4 h3 with hu | ⟨x, rr, hu, hx⟩
        · simp [untoks, Tok.bytes, PAR, List.isPrefixOf, hu, Res.bind]
        · have hxs : x = SLASH := (usep_iff x).mp hx
          subst hxs
          simp [untoks, Tok.bytes, PAR, List.isPrefixOf, hu, Res.bind, SLASH, DOT]
      | [y, z], _ =>
        by_cases hyz : y = DOT ∧ z = DOT
        · obtain ⟨hy, hz⟩ := hyz
          subst hy; subst hz
          simp only [untoks, Tok.bytes, PAR, List.cons_append, List.nil_append, ne_eq, reduceCtorEq,
            not_false_eq_true, List.isPrefixOf, beq_self_eq_true, Bool.and_self, and_self, if_true,
            List.length_cons, List.length_nil, List.drop_succ_cons, List.drop_zero, Res.bind]
          rw [after_dots_ok h4 h3]
        · have hne : [y, z] ≠ [DOT, DOT] := by simpa using hyz
          have hb : ((DOT == y) && (DOT == z)) = false := by
            rw [Bool.and_eq_false_iff]
            by_cases hy : y = DOT
            · right; simpa using fun h => hyz ⟨hy, h.symm⟩
            · left; simpa using fun h => hy h.symm
          simp [untoks, Tok.bytes, PAR, List.isPrefixOf, hb, hne, Res.bind]
      | y :: z :: w :: s', _ =>
        have hw' : usep w = false := h2 w (by simp)
        have hne : (y :: z :: w :: s') ≠ PAR := by simp [PAR]
        by_cases hyz : y = DOT ∧ z = DOT
        · obtain ⟨hy, hz⟩ := hyz
          subst hy; subst hz
          simp only [untoks, Tok.bytes, PAR, List.cons_append, ne_eq, reduceCtorEq, not_false_eq_true,
            List.isPrefixOf, beq_self_eq_true, Bool.and_self, and_self, if_true, List.length_cons,
            List.length_nil, List.drop_succ_cons, List.drop_zero, Res.bind]
          rw [after_dots_err w _ hw']
          simp [PAR] at hne ⊢
        · have hb : ((DOT == y) && (DOT == z)) = false := by
            rw [Bool.and_eq_false_iff]
            by_cases hy : y = DOT
            · right; simpa using fun h => hyz ⟨hy, h.symm⟩
            · left; simpa using fun h => hy h.symm
          simp [untoks, Tok.bytes, PAR, List.isPrefixOf, hb, Res.bind]

/-! ### `parse_front` -/

theorem head_atBeg {ts : List Tok} (hw : WFToks usep ts) :
    anyOf [rootDir, parentDir, curDir, normal] (untoks ts) = match ts with
      | [] => .err
      | .sep _ :: r => .ok (untoks r) .root
      | .seg s :: r => .ok (untoks r) (segComp true s) := by
  simp only [anyOf, rootDir_toks hw, parentDir_toks hw, curDir_toks hw, normal_toks hw]
  cases ts with
  | nil => rfl
  | cons t r =>
    cases t with
    | sep x => rfl
    | seg s =>
      simp only [segComp]
      by_cases h1 : s = PAR
      · simp [h1]
      · have hcp : CUR ≠ PAR := by decide
        by_cases h2 : s = CUR
        · subst h2; simp [hcp]
        · simp [h1, h2]

theorem head_notBeg {ts : List Tok} (hw : WFToks usep ts) :
    anyOf [parentDir, normal] (untoks ts) = match ts with
      | .seg s :: r => .ok (untoks r) (segComp false s)
      | _ => .err := by
  simp only [anyOf, parentDir_toks hw, normal_toks hw]
  cases ts with
  | nil => rfl
  | cons t r =>
    cases t with
    | sep x => rfl
    | seg s =>
      simp only [segComp]
      by_cases h1 : s = PAR
      · simp [h1]
      · simp [h1]

/-- the parser under `zero_or_more` in `move_front_to_next`: one junk token -/
def junkP : P Unit := anyOf [separator, map curDir (fun _ => ())]

theorem junkP_toks {ts : List Tok} (hw : WFToks usep ts) :
    junkP (untoks ts) = match ts with
      | t :: r => if junk false t = true then .ok (untoks r) () else .err
      | [] => .err := by
  simp only [junkP, anyOf, map, separator_toks hw, curDir_toks hw]
  cases ts with
  | nil => rfl
  | cons t r =>
    cases t with
    | sep x => simp [junk]
    | seg s =>
      by_cases h : s = CUR
      · simp [junk, h, Res.bind]
      · simp [junk, h, Res.bind]

/-- PROGRESS: the parser under `zero_or_more` consumes at least one byte whenever it succeeds
(this is what makes the Rust loop terminate) -/
theorem junkP_progress {ts : List Tok} (hw : WFToks usep ts) {i' : Bytes} {v : Unit}
    (h : junkP (untoks ts) = .ok i' v) : i'.length < (untoks ts).length := by
  rw [junkP_toks hw] at h
  cases ts with
  | nil => simp at h
  | cons t r =>
    simp only at h
    split at h
    · simp only [Res.ok.injEq] at h
      rw [← h.1]
      cases t with
      | sep x => simp [untoks, Tok.bytes]
      | seg s =>
        have : 0 < s.length := List.length_pos_iff.mpr hw.1
        simp [untoks, Tok.bytes]; omega
    · simp at h

theorem loop_toks : ∀ (ts : List Tok), WFToks usep ts → ∀ (fuel : Nat) (acc : List Unit),
    (ts.takeWhile (junk false)).length + 1 ≤ fuel →
    oneOrMoreLoop junkP fuel (untoks ts) acc =
      .ok (untoks (skipFront false ts)) (acc ++ List.replicate (ts.takeWhile (junk false)).length ())
  | [], _, fuel, acc, hf => by
    cases fuel with
    | zero => simp at hf
    | succ f =>
      have hj := junkP_toks (ts := []) trivial
      simp only [untoks] at hj
      simp [oneOrMoreLoop, hj, skipFront, untoks]
  | t :: r, hw, fuel, acc, hf => by
    cases fuel with
    | zero => simp at hf
    | succ f =>
      simp only [oneOrMoreLoop, junkP_toks hw]
      by_cases hj : junk false t = true
      · simp only [hj, if_true]
        simp only [List.takeWhile_cons, hj, if_true, List.length_cons] at hf ⊢
        rw [loop_toks r (WFToks_tail hw) f (acc ++ [()]) (by omega)]
        simp [skipFront, List.dropWhile_cons, hj, List.replicate_succ]
      · simp only [hj, Bool.false_eq_true, if_false]
        simp [skipFront, List.dropWhile_cons, List.takeWhile_cons, hj]

theorem moveFrontToNext_toks {ts : List Tok} (hw : WFToks usep ts) :
    moveFrontToNext (untoks ts) = .ok (untoks (skipFront false ts)) () := by
  have hfuel : (ts.takeWhile (junk false)).length + 1 ≤ (untoks ts).length + 1 := by
    have h1 := takeWhile_length_le (junk false) ts
    have h2 := length_le_untoks hw
    omega
  have hl := loop_toks ts hw ((untoks ts).length + 1) [] hfuel
  unfold junkP at hl
  simp only [moveFrontToNext, map, zeroOrMore, maybe, oneOrMore, hl]
  cases hn : (ts.takeWhile (junk false)).length with
  | zero =>
    have ht : ts.takeWhile (junk false) = [] := List.length_eq_zero_iff.mp hn
    have hs : skipFront false ts = ts := by
      have := List.takeWhile_append_dropWhile (p := junk false) (l := ts)
      rw [ht, List.nil_append] at this
      exact this
    simp [Res.bind, hs]
  | succ n =>
    simp [Res.bind, List.replicate_succ]

theorem parseFront_toks (atBeg : Bool) {ts : List Tok} (hw : WFToks usep ts) :
    parseFront atBeg (untoks ts) = match frontT false atBeg ts with
      | some (c, ts') => .ok (untoks ts') c
      | none => .err := by
  cases atBeg with
  | true =>
    simp only [parseFront, if_true, suffixed, head_atBeg hw]
    cases ts with
    | nil => rfl
    | cons t r =>
      have hr := WFToks_tail hw
      cases t with
      | sep x => simp [frontT, Res.bind, moveFrontToNext_toks hr]
      | seg s => simp [frontT, Res.bind, moveFrontToNext_toks hr]
  | false =>
    simp only [parseFront, Bool.false_eq_true, if_false, suffixed, head_notBeg hw]
    cases ts with
    | nil => rfl
    | cons t r =>
      have hr := WFToks_tail hw
      cases t with
      | sep x => simp [frontT, Res.bind]
      | seg s => simp [frontT, Res.bind, moveFrontToNext_toks hr]

/-! ### `move_back_to_next` and `parse_back` -/

theorem untoks_last_nonsep {isSep : UInt8 → Bool} {c : List Tok} (hw : WFToks isSep c)
    (hc : c = [] ∨ ∃ c0 s, c = c0 ++ [.seg s]) :
    untoks c = [] ∨ ∃ a0 y, untoks c = a0 ++ [y] ∧ isSep y = false := by
  rcases hc with rfl | ⟨c0, s, rfl⟩
  · exact Or.inl rfl
  · obtain ⟨s0, y, _, hy, hu⟩ := untoks_snoc_seg hw
    exact Or.inr ⟨_, y, hu, hy⟩

theorem untoks_last_sep {isSep : UInt8 → Bool} {c : List Tok} (hw : WFToks isSep c)
    (hc : c = [] ∨ ∃ c0 x, c = c0 ++ [.sep x]) :
    untoks c = [] ∨ ∃ a0 y, untoks c = a0 ++ [y] ∧ isSep y = true := by
  rcases hc with rfl | ⟨c0, x, rfl⟩
  · exact Or.inl rfl
  · refine Or.inr ⟨untoks c0, x, ?_, WF_mem_sep hw x (by simp)⟩
    rw [untoks_append]; simp [untoks, Tok.bytes]

theorem skipBack_true_shape (ts : List Tok) :
    skipBack true ts = [] ∨ ∃ c0 s, skipBack true ts = c0 ++ [.seg s] := by
  rcases List.eq_nil_or_concat (skipBack true ts) with h | ⟨c0, t, h⟩
  · exact Or.inl h
  · rw [List.concat_eq_append] at h
    have hl : (skipBack true ts).getLast? = some t := by rw [h]; simp
    have hj := skipBack_getLast hl
    cases t with
    | sep x => simp [junk] at hj
    | seg s => exact Or.inr ⟨c0, s, h⟩

theorem skipBack_false_shape (ts : List Tok) :
    skipBack false ts = [] ∨ ∃ c0 s, skipBack false ts = c0 ++ [.seg s] ∧ s ≠ CUR := by
  rcases List.eq_nil_or_concat (skipBack false ts) with h | ⟨c0, t, h⟩
  · exact Or.inl h
  · rw [List.concat_eq_append] at h
    have hl : (skipBack false ts).getLast? = some t := by rw [h]; simp
    have hj := skipBack_getLast hl
    cases t with
    | sep x => simp [junk] at hj
    | seg s => exact Or.inr ⟨c0, s, h, by simpa [junk] using hj⟩

/-- `rtake_until_byte(|b| !is_sep(b))` strips exactly the trailing separator tokens -/
theorem rstrip_seps_toks {ts : List Tok} (hw : WFToks usep ts) :
    ∃ v, rtakeUntilByte (fun b => !usep b) (untoks ts) = .ok (untoks (skipBack true ts)) v := by
  obtain ⟨j, hs, hj⟩ := skipBack_split true ts
  have hw' : WFToks usep (skipBack true ts ++ j) := by rw [← hs]; exact hw
  have hwc : WFToks usep (skipBack true ts) := WFToks_prefix _ hw'
  have hwj : WFToks usep j := WFToks_suffix _ hw'
  have hb := untoks_all_sep hwj hj
  have ha := untoks_last_nonsep hwc (skipBack_true_shape ts)
  have key := rspan_bytes (fun x => !(!usep x)) (untoks (skipBack true ts)) (untoks j)
    (by intro y hy; simp [hb y hy])
    (by
      rcases ha with h | ⟨a0, y, h, hy⟩
      · exact Or.inl h
      · exact Or.inr ⟨a0, y, h, by simp [hy]⟩)
  have hu : untoks ts = untoks (skipBack true ts) ++ untoks j := by
    conv => lhs; rw [hs]
    exact untoks_append _ _
  refine ⟨untoks j, ?_⟩
  rw [rtakeUntilByte_eq, hu, key.1, key.2]

theorem untoks_eq_nil {isSep : UInt8 → Bool} {ts : List Tok} (hw : WFToks isSep ts) (h : untoks ts = []) : ts = [] := by
  have := length_le_untoks hw
  rw [h] at this
  exact List.length_eq_zero_iff.mp (by simpa using this)

theorem moveBackLoop_nil (f : Nat) : moveBackLoop (f + 1) [] = .ok [] () := by
  simp [moveBackLoop]

theorem moveBackLoop_toks : ∀ (n : Nat) (ts : List Tok), ts.length ≤ n → WFToks usep ts →
    ∀ fuel, ts.length + 1 ≤ fuel →
    moveBackLoop fuel (untoks ts) = .ok (untoks (skipBack false ts)) () := by
  intro n
  induction n with
  | zero =>
    intro ts hn hw fuel hf
    have : ts = [] := List.length_eq_zero_iff.mp (by omega)
    subst this
    cases fuel with
    | zero => omega
    | succ f => simp [moveBackLoop, untoks, skipBack]
  | succ n ih =>
    intro ts hn hw fuel hf
    cases fuel with
    | zero => omega
    | succ f =>
      by_cases hts : ts = []
      · subst hts; simp [moveBackLoop, untoks, skipBack]
      · have hne : untoks ts ≠ [] := fun h => hts (untoks_eq_nil hw h)
        have htl : 0 < ts.length := List.length_pos_iff.mpr hts
        obtain ⟨v, hv⟩ := rstrip_seps_toks hw
        simp only [moveBackLoop, List.isEmpty_iff, hne, if_false, hv, Res.bind]
        obtain ⟨j, hs, hj⟩ := skipBack_split true ts
        have hjf : ∀ t ∈ j, junk false t = true := fun t ht => junk_false_of_true (hj t ht)
        have hw' : WFToks usep (skipBack true ts ++ j) := by rw [← hs]; exact hw
        have hwc : WFToks usep (skipBack true ts) := WFToks_prefix _ hw'
        rcases skipBack_true_shape ts with hc | ⟨c0, s, hc⟩
        · -- only separators
          have hall : skipBack false ts = [] := by
            apply skipBack_all_junk
            rw [hs, hc]; intro t ht
            exact hjf t (by simpa using ht)
          rw [hc, hall]
          simp [untoks, stripSuffix_nil, CUR]
        · rw [hc] at hwc hs
          obtain ⟨s0, y, hsy, hy, hu⟩ := untoks_snoc_seg hwc
          have hsmem := WF_mem_seg hwc s (by simp)
          -- the result when the loop stops here
          have stop : s ≠ CUR → skipBack false ts = c0 ++ [.seg s] := fun hsc =>
            skipBack_of_split hs hjf (Or.inr ⟨c0, .seg s, rfl, by simp [junk, hsc]⟩)
          rw [hc, hu, show CUR = [DOT] from rfl, stripSuffix_snoc]
          by_cases hyd : y = DOT
          · subst hyd
            simp only [if_true]
            rcases List.eq_nil_or_concat s0 with hs0 | ⟨s00, z, hs0⟩
            · -- s = `.`
              subst hs0
              simp only [List.nil_append, List.append_nil] at hsy ⊢
              have hjunk' : ∀ t ∈ [Tok.seg s] ++ j, junk false t = true := by
                intro t ht
                rcases List.mem_append.mp ht with h | h
                · simp at h; subst h; simp [junk, hsy, CUR]
                · exact hjf t h
              have hs' : ts = c0 ++ ([Tok.seg s] ++ j) := by rw [hs]; simp
              rcases WF_before_seg hwc with hc0 | ⟨c00, x, hc0⟩
              · subst hc0
                have hall : skipBack false ts = [] := by
                  apply skipBack_all_junk
                  rw [hs']; simpa using hjunk'
                rw [hall]
                cases f with
                | zero => omega
                | succ f' => simp [untoks, List.isSuffixOf, moveBackLoop_nil]
              · subst hc0
                have hx : x = SLASH := (usep_iff x).mp (WF_mem_sep hwc x (by simp))
                subst hx
                have hun : untoks (c00 ++ [Tok.sep SLASH]) = untoks c00 ++ [SLASH] := by
                  rw [untoks_append]; simp [untoks, Tok.bytes]
                have hwc0 : WFToks usep (c00 ++ [Tok.sep SLASH]) := WFToks_prefix _ hwc
                have hlen : (c00 ++ [Tok.sep SLASH]).length < ts.length := by
                  rw [hs']; simp
                rw [hun, isSuffixOf_singleton_snoc]
                simp only [decide_true, if_true]
                rw [← hun, ih _ (by omega) hwc0 f (by omega)]
                rw [hs', skipBack_append_junk _ _ hjunk']
            · -- s = s00 ++ [z] ++ `.`: a name that merely ends with a dot
              rw [List.concat_eq_append] at hs0
              subst hs0
              have hz : usep z = false := hsmem.2 z (by rw [hsy]; simp)
              have hzs : z ≠ SLASH := fun h => by rw [h] at hz; simp [usep] at hz
              have hsc : s ≠ CUR := by
                rw [hsy]; intro h
                have := congrArg List.length h
                simp [CUR] at this
              rw [← List.append_assoc, isSuffixOf_singleton_snoc]
              simp only [hzs, decide_false, Bool.false_eq_true, if_false, List.isEmpty_iff,
                List.append_eq_nil_iff, List.cons_ne_self, and_false, reduceCtorEq]
              rw [stop hsc, hu]
              simp
          · simp only [hyd, if_false]
            have hsc : s ≠ CUR := by
              rw [hsy]; intro h
              have := congrArg List.getLast? h
              simp [CUR] at this
              exact hyd this
            rw [stop hsc, hu]

theorem moveBackToNext_toks {ts : List Tok} (hw : WFToks usep ts) :
    moveBackToNext (untoks ts) = .ok (untoks (skipBack false ts)) () := by
  unfold moveBackToNext
  exact moveBackLoop_toks ts.length ts (Nat.le_refl _) hw _ (by have := length_le_untoks hw; omega)

theorem rtake1_last_seg {c0 : List Tok} {s : Bytes} (hw : WFToks usep (c0 ++ [.seg s])) :
    rtakeUntilByte1 usep (untoks (c0 ++ [.seg s])) = .ok (untoks c0) s := by
  rw [rtakeUntilByte1_eq]
  have hsm := WF_mem_seg hw s (by simp)
  have hwc0 : WFToks usep c0 := WFToks_prefix _ hw
  have ha := untoks_last_sep hwc0 (WF_before_seg hw)
  have key := rspan_bytes (fun x => !usep x) (untoks c0) s
    (by intro y hy; simp [hsm.2 y hy])
    (by
      rcases ha with h | ⟨a0, y, h, hy⟩
      · exact Or.inl h
      · exact Or.inr ⟨a0, y, h, by simp [hy]⟩)
  have hu : untoks (c0 ++ [.seg s]) = untoks c0 ++ s := by
    rw [untoks_append]; simp [untoks, Tok.bytes]
  have hne : (untoks c0 ++ s).reverse.takeWhile (fun x => !usep x) ≠ [] := by
    intro h
    have := key.2
    rw [h] at this
    exact hsm.1 (by simpa using this.symm)
  rw [hu]
  simp only [hne, if_false, key.1, key.2]

theorem fullyConsumed_seg {s : Bytes} (h1 : s ≠ []) (h2 : ∀ y ∈ s, usep y = false) :
    fullyConsumed (anyOf [parentDir, normal]) s = .ok [] (segComp false s) := by
  have hw : WFToks usep [.seg s] := ⟨h1, h2, trivial, trivial⟩
  have := head_notBeg hw
  simp only [untoks, Tok.bytes, List.append_nil] at this
  simp [fullyConsumed, this, Res.bind, empty]

theorem orOk_start {γ : Type} {c0 : List Tok} (hw : WFToks usep c0) (k : Bool → Res γ) :
    orOk (rootDir (untoks c0)) (fun _ => curDir (untoks c0)) k = k (startsRootOrCur c0) := by
  rw [rootDir_toks hw, curDir_toks hw]
  cases c0 with
  | nil => rfl
  | cons t r =>
    cases t with
    | sep x => rfl
    | seg s =>
      by_cases h : s = CUR
      · simp [orOk, startsRootOrCur, h]
      · simp [orOk, startsRootOrCur, h]

theorem untoks_take_one {c0 : List Tok} (hw : WFToks usep c0) (h : startsRootOrCur c0 = true) :
    sliceTo (untoks c0) 1 = some (untoks (c0.take 1)) := by
  cases c0 with
  | nil => simp [startsRootOrCur] at h
  | cons t r =>
    cases t with
    | sep x => simp [sliceTo, untoks, Tok.bytes]
    | seg s =>
      have : s = CUR := by simpa [startsRootOrCur] using h
      subst this
      simp [sliceTo, untoks, Tok.bytes, CUR]

theorem parseBack_toks (atBeg : Bool) {ts : List Tok} (hw : WFToks usep ts) :
    parseBack atBeg (untoks ts) = match backT false atBeg ts with
      | some (c, ts') => .ok (untoks ts') c
      | none => .err := by
  unfold parseBack backT
  simp only [moveBackToNext_toks hw, Res.bind]
  have hwt1 : WFToks usep (skipBack false ts) := by
    obtain ⟨j, hs, _⟩ := skipBack_split false ts
    have : WFToks usep (skipBack false ts ++ j) := by rw [← hs]; exact hw
    exact WFToks_prefix _ this
  have hemp : (untoks (skipBack false ts)).isEmpty = decide (skipBack false ts = []) := by
    by_cases h : skipBack false ts = []
    · simp [h, untoks]
    · have : untoks (skipBack false ts) ≠ [] := fun h' => h (untoks_eq_nil hwt1 h')
      simp [h, this]
  rw [hemp]
  by_cases hcond : atBeg = true ∧ skipBack false ts = []
  · obtain ⟨hb, ht⟩ := hcond
    simp only [hb, ht, decide_true, Bool.and_self, if_true, and_self]
    rw [parseFront_toks true hw]
    cases frontT false true ts with
    | none => rfl
    | some p => obtain ⟨c, ts'⟩ := p; rfl
  · have hc1 : (atBeg && decide (skipBack false ts = [])) = false := by
      cases atBeg with
      | false => rfl
      | true =>
        have : skipBack false ts ≠ [] := fun h => hcond ⟨rfl, h⟩
        simp [this]
    simp only [hc1, Bool.false_eq_true, if_false, hcond]
    rcases skipBack_false_shape ts with ht | ⟨c0, s, ht, hsc⟩
    · rw [ht]
      simp [untoks, rtakeUntilByte1_eq, Res.bind]
    · rw [ht] at hwt1 ⊢
      have hsm := WF_mem_seg hwt1 s (by simp)
      have hwc0 : WFToks usep c0 := WFToks_prefix _ hwt1
      rw [rtake1_last_seg hwt1]
      simp only [Res.bind, fullyConsumed_seg hsm.1 hsm.2, List.getLast?_concat, List.dropLast_concat]
      have hmb := moveBackToNext_toks hwc0
      cases atBeg with
      | false =>
        simp [hmb, Res.bind]
      | true =>
        simp only [if_true, true_and]
        rw [orOk_start hwc0]
        by_cases hst : startsRootOrCur c0 = true
        · simp only [hst, if_true, true_and, consumedCnt, hmb, Res.bind]
          obtain ⟨j', hs', _⟩ := skipBack_split false c0
          have hlen : (untoks c0).length = (untoks (skipBack false c0)).length + (untoks j').length := by
            conv => lhs; rw [hs', untoks_append]
            simp
          have hle : (untoks (skipBack false c0)).length ≤ (untoks c0).length := by omega
          simp only [checkedSub, hle, if_true]
          have hwr : WFToks usep (skipBack false c0) := by
            have : WFToks usep (skipBack false c0 ++ j') := by rw [← hs']; exact hwc0
            exact WFToks_prefix _ this
          by_cases hr : skipBack false c0 = []
          · simp [hr, untoks, untoks_take_one hwc0 hst]
          · have hne : untoks (skipBack false c0) ≠ [] := fun h' => hr (untoks_eq_nil hwr h')
            have hpos : 0 < (untoks (skipBack false c0)).length := List.length_pos_iff.mpr hne
            have : ¬ (untoks c0).length = (untoks c0).length - (untoks (skipBack false c0)).length := by omega
            simp [this, hr]
        · have hst' : startsRootOrCur c0 = false := by simpa using hst
          simp [hst', hmb, Res.bind]

end Unix

end TP.Comb
