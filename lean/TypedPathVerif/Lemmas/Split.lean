/-
Lemmas/Split.lean — the token view and the "split on separators" view of a byte string agree.
-/
import TypedPathVerif.Lemmas.EncNew
import TypedPathVerif.Spec.StdSpec

namespace TP

open StdSpec

def firstSeg : List Tok → Bytes
  | .seg s :: _ => s
  | _ => []

def dropFirstSeg : List Tok → List Tok
  | .seg _ :: r => r
  | ts => ts

theorem toks_seg_ne_nil (isSep : UInt8 → Bool) (b : Bytes) : ∀ s, Tok.seg s ∈ toks isSep b → s ≠ [] := by
  induction b with
  | nil => intro s h; simp [toks] at h
  | cons x xs ih =>
    intro s h
    simp only [toks] at h
    split at h
    · rcases List.mem_cons.mp h with h | h
      · cases h
      · exact ih s h
    · split at h
      · rename_i s' r hr
        rcases List.mem_cons.mp h with h | h
        · cases h; simp
        · exact ih s (by rw [hr]; simp [h])
      · rcases List.mem_cons.mp h with h | h
        · cases h; simp
        · exact ih s h

/-- unix body component of a segment = std's classification of an interior segment -/
theorem body_false_cons_seg (s : Bytes) (r : List Tok) (hs : s ≠ []) :
    body false (.seg s :: r) = (interior s).toList ++ body false r := by
  by_cases hc : s = CUR
  · subst hc
    rw [body_cons_junk r (by simp [junk])]
    simp [interior]
  · rw [body_cons_seg r (by simp [junk, hc])]
    simp [interior, hs, hc, segComp, classify]

theorem body_false_first (ts : List Tok) (hne : ∀ s, Tok.seg s ∈ ts → s ≠ []) :
    body false ts = (interior (firstSeg ts)).toList ++ body false (dropFirstSeg ts) := by
  cases ts with
  | nil => simp [firstSeg, dropFirstSeg, interior]
  | cons t r =>
    cases t with
    | sep b => simp [firstSeg, dropFirstSeg, interior]
    | seg s =>
      simp only [firstSeg, dropFirstSeg]
      exact body_false_cons_seg s r (hne s (by simp))

/-- the split view in terms of the token view -/
theorem splitOn_toks (isSep : UInt8 → Bool) (b : Bytes) :
    ∃ rest, splitOn isSep b = firstSeg (toks isSep b) :: rest ∧
      rest.filterMap interior = body false (dropFirstSeg (toks isSep b)) := by
  induction b with
  | nil => exact ⟨[], by simp [splitOn, toks, firstSeg], by simp [toks, dropFirstSeg]⟩
  | cons x xs ih =>
    obtain ⟨rest, h1, h2⟩ := ih
    by_cases hx : isSep x = true
    · refine ⟨firstSeg (toks isSep xs) :: rest, by simp [splitOn, toks, hx, firstSeg, h1], ?_⟩
      simp only [toks, hx, if_true, dropFirstSeg, List.filterMap_cons]
      rw [body_cons_junk _ (by rfl), body_false_first _ (toks_seg_ne_nil isSep xs), ← h2]
      cases interior (firstSeg (toks isSep xs)) <;> simp
    · refine ⟨rest, ?_, ?_⟩
      · simp only [splitOn, hx, Bool.false_eq_true, if_false, h1, toks]
        split <;> simp_all [firstSeg]
      · simp only [toks, hx, Bool.false_eq_true, if_false]
        split
        · rename_i s r hr
          rw [hr] at h2
          simpa [dropFirstSeg] using h2
        · rename_i hns
          rw [h2]
          cases hts : toks isSep xs with
          | nil => simp [dropFirstSeg]
          | cons t r =>
            cases t with
            | sep b' => simp [dropFirstSeg]
            | seg s => exact absurd hts (hns s r)

end TP
