/-
Lemmas/Reparse.lean — law (R): what remains after a step is a contiguous piece of the input,
and (for well-formed token lists) re-tokenising its bytes gives the same tokens back.
-/
import TypedPathVerif.Lemmas.Split

namespace TP

/-- the list does not start with a segment token -/
def notSegHead : List Tok → Prop
  | .seg _ :: _ => False
  | _ => True

/-- a token list as produced by `toks`: separators are separator bytes, segments are
non-empty, separator-free and never adjacent -/
def WFToks (isSep : UInt8 → Bool) : List Tok → Prop
  | [] => True
  | .sep x :: r => isSep x = true ∧ WFToks isSep r
  | .seg s :: r => s ≠ [] ∧ (∀ y ∈ s, isSep y = false) ∧ notSegHead r ∧ WFToks isSep r

theorem WFToks_toks (isSep : UInt8 → Bool) (b : Bytes) : WFToks isSep (toks isSep b) := by
  induction b with
  | nil => trivial
  | cons x xs ih =>
    simp only [toks]
    split
    · rename_i hx; exact ⟨hx, ih⟩
    · rename_i hx
      have hx' : isSep x = false := by simpa using hx
      split
      · rename_i s r hr
        rw [hr] at ih
        obtain ⟨h1, h2, h3, h4⟩ := ih
        refine ⟨by simp, ?_, h3, h4⟩
        intro y hy
        rcases List.mem_cons.mp hy with rfl | hy
        · exact hx'
        · exact h2 y hy
      · rename_i hns
        refine ⟨by simp, by simpa using hx', ?_, ih⟩
        cases hts : toks isSep xs with
        | nil => trivial
        | cons t r =>
          cases t with
          | sep b' => trivial
          | seg s => exact absurd hts (hns s r)

theorem WFToks_tail {isSep : UInt8 → Bool} {t : Tok} {r : List Tok} (h : WFToks isSep (t :: r)) :
    WFToks isSep r := by
  cases t with
  | sep x => exact h.2
  | seg s => exact h.2.2.2

theorem WFToks_suffix {isSep : UInt8 → Bool} : ∀ (p : List Tok) {r : List Tok}, WFToks isSep (p ++ r) → WFToks isSep r
  | [], _, h => h
  | _ :: p, _, h => WFToks_suffix p (WFToks_tail h)

theorem WFToks_prefix {isSep : UInt8 → Bool} : ∀ (p : List Tok) {r : List Tok}, WFToks isSep (p ++ r) → WFToks isSep p
  | [], _, _ => trivial
  | .sep x :: p, r, h => ⟨h.1, WFToks_prefix p h.2⟩
  | .seg s :: p, r, h => by
    obtain ⟨h1, h2, h3, h4⟩ := h
    refine ⟨h1, h2, ?_, WFToks_prefix p h4⟩
    cases p with
    | nil => trivial
    | cons t p' =>
      cases t with
      | sep x => trivial
      | seg s' => exact h3

/-- tokenising a run of non-separator bytes followed by something that does not start with a
segment -/
theorem toks_append_seg (isSep : UInt8 → Bool) (s rest : Bytes) (r : List Tok) (hs : s ≠ [])
    (hns : ∀ y ∈ s, isSep y = false) (hr : toks isSep rest = r)
    (hnseg : notSegHead r) :
    toks isSep (s ++ rest) = .seg s :: r := by
  induction s with
  | nil => exact absurd rfl hs
  | cons y s' ih =>
    have hy : isSep y = false := hns y (by simp)
    simp only [List.cons_append, toks, hy, Bool.false_eq_true, if_false]
    cases s' with
    | nil =>
      simp only [List.nil_append, hr]
      cases r with
      | nil => rfl
      | cons t r' =>
        cases t with
        | sep x => rfl
        | seg s'' => exact absurd hnseg (by simp [notSegHead])
    | cons z s'' =>
      rw [ih (by simp) (fun w hw => hns w (by simp [hw]))]

theorem toks_untoks {isSep : UInt8 → Bool} : ∀ (ts : List Tok), WFToks isSep ts → toks isSep (untoks ts) = ts
  | [], _ => rfl
  | .sep x :: r, h => by
    simp only [untoks, Tok.bytes, List.singleton_append, toks, h.1, if_true]
    rw [toks_untoks r h.2]
  | .seg s :: r, h => by
    obtain ⟨h1, h2, h3, h4⟩ := h
    simp only [untoks, Tok.bytes]
    exact toks_append_seg isSep s (untoks r) r h1 h2 (toks_untoks r h4) h3

/-! ### the remainder of a step is a contiguous piece of the token list -/

theorem skipFront_suffix (k : Bool) (ts : List Tok) : ∃ p, ts = p ++ skipFront k ts :=
  ⟨ts.takeWhile (junk k), by unfold skipFront; rw [List.takeWhile_append_dropWhile]⟩

theorem frontT_suffix {k atBeg : Bool} {ts ts' : List Tok} {c : Comp}
    (h : frontT k atBeg ts = some (c, ts')) : ∃ p, ts = p ++ ts' := by
  cases ts with
  | nil => simp [frontT] at h
  | cons t r =>
    obtain ⟨p, hp⟩ := skipFront_suffix k r
    cases t with
    | sep b =>
      simp only [frontT] at h
      split at h
      · simp only [Option.some.injEq, Prod.mk.injEq] at h
        rw [← h.2]; exact ⟨.sep b :: p, by rw [List.cons_append, ← hp]⟩
      · cases h
    | seg s =>
      simp only [frontT, Option.some.injEq, Prod.mk.injEq] at h
      rw [← h.2]; exact ⟨.seg s :: p, by rw [List.cons_append, ← hp]⟩

theorem backT_prefix {k atBeg : Bool} {ts ts' : List Tok} {c : Comp}
    (h : backT k atBeg ts = some (c, ts')) : ∃ q, ts = ts' ++ q := by
  obtain ⟨j, hj, _⟩ := skipBack_split k ts
  unfold backT at h
  simp only at h
  split at h
  · cases hf : frontT k atBeg ts with
    | none => simp [hf] at h
    | some r =>
      simp only [hf, Option.map_some, Option.some.injEq, Prod.mk.injEq] at h
      rw [← h.2]; exact ⟨ts, rfl⟩
  · split at h
    · rename_i s hlast
      simp only [Option.some.injEq, Prod.mk.injEq] at h
      have ht1 := list_eq_dropLast_append hlast
      obtain ⟨j', hj', _⟩ := skipBack_split k (skipBack k ts).dropLast
      rw [← h.2]
      split
      · -- take 1 of r is a prefix of r
        refine ⟨(skipBack k ts).dropLast.drop 1 ++ [.seg s] ++ j, ?_⟩
        conv => lhs; rw [hj, ht1]
        simp only [List.append_assoc]
        rw [← List.append_assoc (List.take 1 _), List.take_append_drop]
      · refine ⟨j' ++ [.seg s] ++ j, ?_⟩
        conv => lhs; rw [hj, ht1, hj']
        simp only [List.append_assoc]
    · cases h

end TP
