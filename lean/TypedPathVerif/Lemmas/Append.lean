/-
Lemmas/Append.lean — (A) the append lemma: components of a path with something pushed onto it.
Unix in full; the token-level facts are encoding-independent.
-/
import TypedPathVerif.Props.C01

namespace TP

/-- a separator byte cuts the tokenisation cleanly in two -/
theorem toks_append_sep (isSep : UInt8 → Bool) (a b : Bytes) (x : UInt8) (hx : isSep x = true) :
    toks isSep (a ++ x :: b) = toks isSep a ++ .sep x :: toks isSep b := by
  induction a with
  | nil => simp [toks, hx]
  | cons y a ih =>
    simp only [List.cons_append, toks]
    split
    · rw [ih]; rfl
    · rw [ih]
      cases hta : toks isSep a with
      | nil => rfl
      | cons t r => cases t <;> rfl

theorem toks_append_sep_end (isSep : UInt8 → Bool) (a : Bytes) (x : UInt8) (hx : isSep x = true) :
    toks isSep (a ++ [x]) = toks isSep a ++ [.sep x] := by
  have := toks_append_sep isSep a [] x hx
  simpa [toks] using this

theorem toks_eq_nil_iff (isSep : UInt8 → Bool) (b : Bytes) : toks isSep b = [] ↔ b = [] := by
  constructor
  · intro h
    have := untoks_toks isSep b
    rw [h] at this
    exact this.symm
  · intro h; subst h; rfl

/-- components of a non-empty token list followed by a separator and more tokens -/
theorem compsT_append_sep (k : Bool) (a b : List Tok) (x : UInt8) (ha : a ≠ []) :
    compsT k true (a ++ .sep x :: b) = compsT k true a ++ body k b := by
  cases a with
  | nil => exact absurd rfl ha
  | cons t r =>
    simp only [List.cons_append, compsT_true_cons]
    rw [body_append, body_cons_junk b (by rfl)]

/-- drop a leading `.` component -/
def dropLeadingCur : List Comp → List Comp
  | .cur :: r => r
  | l => l

/-- what a relative path contributes when it no longer starts the path -/
theorem body_eq_dropLeadingCur (ts : List Tok) (hrel : ∀ x r, ts ≠ .sep x :: r) :
    body false ts = dropLeadingCur (compsT false true ts) := by
  cases ts with
  | nil => rfl
  | cons t r =>
    cases t with
    | sep x => exact absurd rfl (hrel x r)
    | seg s =>
      rw [compsT_true_cons]
      by_cases hc : s = CUR
      · subst hc
        rw [body_cons_junk r (by simp [junk])]
        simp [headComp, segComp, dropLeadingCur, CUR, PAR]
      · rw [body_cons_seg r (by simp [junk, hc])]
        have hne : segComp true s ≠ .cur := by
          unfold segComp; split
          · simp
          · simp [hc]
        have e1 : segComp false s = segComp true s := by
          simp [segComp, hc]
        rw [e1]
        simp only [headComp]
        cases hsc : segComp true s with
        | cur => exact absurd hsc hne
        | _ => rfl

theorem unix_comps_eq (b : Bytes) : comps .unix b = compsT false true (toks usep b) := by
  rw [C03.comps_new_closed]; simp [Enc.new]

theorem usep_slash : usep SLASH = true := by decide

theorem unix_isAbsolute_iff (p : Bytes) : isAbsolute .unix p = true ↔ ∃ r, toks usep p = .sep SLASH :: r := by
  have h1 : isAbsolute .unix p = hasRoot .unix p := rfl
  rw [h1, C01.hasRoot_unix_toks]
  have hw := WFToks_toks usep p
  cases hts : toks usep p with
  | nil => simp
  | cons t r =>
    rw [hts] at hw
    cases t with
    | sep x =>
      have hx : x = SLASH := by simpa [usep] using hw.1
      subst hx
      simp
    | seg s => simp

/-- (A) for Unix: pushing a non-empty relative path onto a non-empty buffer appends its
components (minus a leading `.`, which no longer starts the path) to the buffer's. -/
theorem unix_push_comps (cur p : Bytes) (hp : p ≠ []) (hrel : isAbsolute .unix p = false)
    (hcur : cur ≠ []) :
    comps .unix (unixPush cur p) = comps .unix cur ++ dropLeadingCur (comps .unix p) := by
  have hrel' : ∀ x r, toks usep p ≠ .sep x :: r := by
    intro x r h
    have hw := WFToks_toks usep p
    rw [h] at hw
    have hx : x = SLASH := by simpa [usep] using hw.1
    subst hx
    have := (unix_isAbsolute_iff p).mpr ⟨r, h⟩
    rw [hrel] at this; cases this
  have hbody := body_eq_dropLeadingCur (toks usep p) hrel'
  unfold unixPush
  simp only [hp, if_false, hrel, Bool.false_eq_true]
  rw [unix_comps_eq, unix_comps_eq, unix_comps_eq]
  by_cases hlast : cur.getLast? ≠ some SLASH
  · simp only [hcur, ne_eq, not_false_eq_true, hlast, and_self, if_true]
    rw [List.append_assoc, List.singleton_append, toks_append_sep usep cur p SLASH usep_slash,
      compsT_append_sep false _ _ SLASH (by rw [ne_eq, toks_eq_nil_iff]; exact hcur), hbody]
  · have hl : cur.getLast? = some SLASH := by simpa using hlast
    simp only [hl, ne_eq, not_true_eq_false, and_false, if_false]
    have hc : cur = cur.dropLast ++ [SLASH] := list_eq_dropLast_append hl
    generalize cur.dropLast = c' at hc
    subst hc
    rw [List.append_assoc, List.singleton_append, toks_append_sep usep c' p SLASH usep_slash,
      toks_append_sep_end usep c' SLASH usep_slash]
    cases hc' : toks usep c' with
    | nil =>
      simp only [List.nil_append, compsT_true_cons, headComp, body_nil]
      rw [hbody]; rfl
    | cons t r =>
      rw [compsT_append_sep false _ _ SLASH (by simp), hbody]
      have : compsT false true ((t :: r) ++ [.sep SLASH]) = compsT false true (t :: r) := by
        have := compsT_append_sep false (t :: r) [] SLASH (by simp)
        simpa using this
      rw [this]

/-- results of the checked operations can be compared by `decide` -/
instance : DecidableEq (Except CheckedErr Bytes) := fun a b =>
  match a, b with
  | .ok x, .ok y => if h : x = y then isTrue (by rw [h]) else isFalse (by intro h'; cases h'; exact h rfl)
  | .error x, .error y => if h : x = y then isTrue (by rw [h]) else isFalse (by intro h'; cases h'; exact h rfl)
  | .ok _, .error _ => isFalse (by intro h; cases h)
  | .error _, .ok _ => isFalse (by intro h; cases h)

end TP
