/-
Lemmas/WinReparse.lean — law (R) for Windows: after back steps that return names / `.` / `..`
from a fresh Windows parser, re-parsing the remaining bytes from scratch gives the parser state
that remains — for every path whose prefix is stable (`Win.Stable`, all complete prefixes) and
for every path that does not start like a prefix (`pfxStart = false`).
-/
import TypedPathVerif.Lemmas.WinStable
import TypedPathVerif.Lemmas.CombUnix

namespace TP.Win

open TP

/-- a fresh parser on `raw ++ rest` with a stable prefix -/
theorem new_of_stable {p : PrefixComp} (hs : Stable p) (rest : Bytes) (hok : RestOK p rest) :
    Enc.new .windows (p.raw ++ rest) =
      { pre := some p, toks := toks (wsep (normOf p.raw)) rest, atBeg := true, k := !normOf p.raw } := by
  obtain ⟨h1, h2⟩ := hs rest hok
  simp only [Enc.new, h1, h2, normOf]

/-- states reached from a fresh parser on a stably-prefixed path by back steps that did not hand
out the prefix -/
structure WReach (p : PrefixComp) (st : PState) : Prop where
  pre : st.pre = some p
  k : st.k = !normOf p.raw
  wf : WFToks (wsep (normOf p.raw)) st.toks
  atBeg : st.atBeg = true
  ok : RestOK p (untoks st.toks)

theorem WReach_new {b rest : Bytes} {p : PrefixComp} (h : parsePrefixComp b = some (p, rest))
    (hs : Stable p) (hok : RestOK p rest) : WReach p (Enc.new .windows b) := by
  have hb := parsePrefixComp_raw h
  rw [← hb, new_of_stable hs rest hok]
  exact ⟨rfl, rfl, WFToks_toks _ rest, rfl, by simp only [untoks_toks]; exact hok⟩

/-- (R): the bytes that remain re-parse to the state that remains -/
theorem win_reparse {p : PrefixComp} {st : PState} (hr : WReach p st) (hs : Stable p) :
    Enc.new .windows st.remaining = st := by
  have h1 : st.remaining = p.raw ++ untoks st.toks := by
    simp [PState.remaining, PState.preBytes, hr.pre]
  rw [h1, new_of_stable hs _ hr.ok, toks_untoks st.toks hr.wf]
  obtain ⟨h1, h2, _, h4, _⟩ := hr
  cases st
  simp only at h1 h2 h4
  subst h1; subst h2; subst h4
  rfl

theorem tok_bytes_ne_nil {f : UInt8 → Bool} {t : Tok} {r : List Tok} (hw : WFToks f (t :: r)) : t.bytes ≠ [] := by
  cases t with
  | sep x => simp [Tok.bytes]
  | seg s => exact hw.1

theorem headOK_prefix {f g : UInt8 → Bool} {ts' q : List Tok} (hw : WFToks g (ts' ++ q))
    (h : HeadOK f (untoks (ts' ++ q))) : HeadOK f (untoks ts') := by
  cases ts' with
  | nil => trivial
  | cons t r =>
    have hne := tok_bytes_ne_nil (by simpa using hw : WFToks g (t :: (r ++ q)))
    simp only [List.cons_append, untoks] at h ⊢
    cases hb : t.bytes with
    | nil => exact absurd hb hne
    | cons x xs =>
      rw [hb] at h
      exact h

theorem restOK_prefix {p : PrefixComp} {g : UInt8 → Bool} {ts' q : List Tok} (hw : WFToks g (ts' ++ q))
    (h : RestOK p (untoks (ts' ++ q))) : RestOK p (untoks ts') := by
  unfold RestOK at h ⊢
  cases hk : p.kind with
  | disk d => trivial
  | verbatimDisk d => trivial
  | deviceNS dev => rw [hk] at h; exact headOK_prefix hw h
  | unc sv sh => rw [hk] at h; exact headOK_prefix hw h
  | verbatimUNC sv sh => rw [hk] at h; exact headOK_prefix hw h
  | verbatim name => rw [hk] at h; exact headOK_prefix hw h

/-- a back step that returns something other than the prefix stays among those states -/
theorem WReach_back {p : PrefixComp} {st st' : PState} {c : Comp} (hr : WReach p st)
    (h : st.nextBack = some (c, st')) (hne : st.toks ≠ []) : WReach p st' := by
  unfold PState.nextBack at h
  simp only [ne_eq, hne, not_false_eq_true, if_true] at h
  cases hb : backT st.k st.atBeg st.toks with
  | none => simp [hb] at h
  | some r =>
    obtain ⟨c', ts'⟩ := r
    simp only [hb, Option.some.injEq, Prod.mk.injEq] at h
    obtain ⟨q, hq⟩ := backT_prefix hb
    rw [← h.2]
    have hw := hr.wf
    rw [hq] at hw
    refine ⟨hr.pre, hr.k, WFToks_prefix ts' hw, hr.atBeg, ?_⟩
    have hok := hr.ok
    rw [hq] at hok
    exact restOK_prefix hw hok

/-! ### prefix-free Windows paths -/

structure WReach0 (st : PState) : Prop where
  pre : st.pre = none
  k : st.k = false
  wf : WFToks (wsep true) st.toks
  atBeg : st.atBeg = true
  pf : C16.pfxStart (untoks st.toks) = false

theorem new_of_pf (b : Bytes) (h : C16.pfxStart b = false) :
    Enc.new .windows b = { pre := none, toks := toks (wsep true) b, atBeg := true, k := false } := by
  have hp : parsePrefixComp b = none := by
    unfold parsePrefixComp; rw [C16.parsePrefix_none_of_pfxStart b h]
  simp only [Enc.new, hp, C16.not_verb_of_pfxStart b h, Bool.not_false, Bool.not_true]

theorem WReach0_new (b : Bytes) (h : C16.pfxStart b = false) : WReach0 (Enc.new .windows b) := by
  rw [new_of_pf b h]
  exact ⟨rfl, rfl, WFToks_toks _ b, rfl, by simp only [untoks_toks]; exact h⟩

theorem win_reparse0 {st : PState} (hr : WReach0 st) : Enc.new .windows st.remaining = st := by
  have h1 : st.remaining = untoks st.toks := by
    simp [PState.remaining, PState.preBytes, hr.pre]
  rw [h1, new_of_pf _ hr.pf, toks_untoks st.toks hr.wf]
  obtain ⟨h1, h2, _, h4, _⟩ := hr
  cases st
  simp only at h1 h2 h4
  subst h1; subst h2; subst h4
  rfl

theorem pfxStart_prefix (a c : Bytes) (h : C16.pfxStart (a ++ c) = false) : C16.pfxStart a = false := by
  match a with
  | [] => rfl
  | [_] => rfl
  | x :: y :: t => simpa [C16.pfxStart] using h

theorem WReach0_back {st st' : PState} {c : Comp} (hr : WReach0 st)
    (h : st.nextBack = some (c, st')) : WReach0 st' := by
  unfold PState.nextBack at h
  by_cases hne : st.toks = []
  · simp [hne, hr.pre] at h
  · simp only [ne_eq, hne, not_false_eq_true, if_true] at h
    cases hb : backT st.k st.atBeg st.toks with
    | none => simp [hb] at h
    | some r =>
      obtain ⟨c', ts'⟩ := r
      simp only [hb, Option.some.injEq, Prod.mk.injEq] at h
      obtain ⟨q, hq⟩ := backT_prefix hb
      rw [← h.2]
      have hw := hr.wf
      rw [hq] at hw
      refine ⟨hr.pre, hr.k, WFToks_prefix ts' hw, hr.atBeg, ?_⟩
      have hpf := hr.pf
      rw [hq, Comb.untoks_append] at hpf
      exact pfxStart_prefix _ _ hpf

/-! ### well-formed Windows paths and the parent -/

/-- Windows paths covered by law (R): no prefix-like start at all, or a complete prefix -/
def WF (b : Bytes) : Prop :=
  C16.pfxStart b = false ∨ ∃ p rest, parsePrefixComp b = some (p, rest) ∧ Complete p.kind

/-- **Windows: the parent's components are the original's components without the last one**, and
the parent is again a well-formed path (so the statement iterates along `ancestors`). -/
theorem win_parent_comps (b q : Bytes) (hwf : WF b) (h : parent .windows b = some q) :
    comps .windows q = (comps .windows b).dropLast ∧ WF q := by
  unfold parent at h
  cases hb : (Enc.new .windows b).nextBack with
  | none => simp [hb] at h
  | some x =>
    obtain ⟨c, s'⟩ := x
    simp only [hb] at h
    split at h
    · rename_i hc
      simp only [Option.some.injEq] at h
      have hcomps := (C09.parent_state_comps .windows b hb).1
      rcases hwf with hpf | ⟨p, rest, hp, hcmp⟩
      · have hr' := WReach0_back (WReach0_new b hpf) hb
        have hre := win_reparse0 hr'
        rw [h] at hre
        refine ⟨?_, Or.inl ?_⟩
        · unfold comps; rw [hre]; exact hcomps
        · rw [← h]
          simp only [PState.remaining, PState.preBytes, hr'.pre, List.nil_append]
          exact hr'.pf
      · have hs := stable_of_complete hp hcmp
        have hr0 := WReach_new hp hs (restOK_of_complete hp hcmp)
        -- the step did not hand out the prefix: the component is a name, `.` or `..`
        have hne : (Enc.new .windows b).toks ≠ [] := by
          intro hnil
          unfold PState.nextBack at hb
          simp only [hnil, ne_eq, not_true_eq_false, if_false, hr0.pre, Option.some.injEq, Prod.mk.injEq] at hb
          rw [← hb.1] at hc
          simp [Comp.isNormal, Comp.isCur, Comp.isParent] at hc
        have hr' := WReach_back hr0 hb hne
        have hre := win_reparse hr' hs
        rw [h] at hre
        refine ⟨?_, Or.inr ⟨p, untoks s'.toks, ?_, hcmp⟩⟩
        · unfold comps; rw [hre]; exact hcomps
        · rw [← h]
          have : s'.remaining = p.raw ++ untoks s'.toks := by
            simp [PState.remaining, PState.preBytes, hr'.pre]
          rw [this]
          exact (hs _ hr'.ok).1
    · cases h

end TP.Win
