/-
Lemmas/Laws.lean — the structural laws of the double-ended parser (DESIGN.md §4.3):
(F) a front step peels the head of `comps`, (B) a back step peels its last element,
(E) the two ends fail together, plus the state invariant they need.
-/
import TypedPathVerif.Lemmas.Tokens

namespace TP

/-- one unfolding of the well-founded definition -/
theorem comps_unfold (s : PState) :
    s.comps = match s.nextFront with
      | none => []
      | some (c, s') => c :: s'.comps := by
  rw [PState.comps]
  split <;> simp_all

theorem compsBack_unfold (s : PState) :
    s.compsBack = match s.nextBack with
      | none => []
      | some (c, s') => c :: s'.compsBack := by
  rw [PState.compsBack]
  split <;> simp_all

/-- (F) -/
theorem front_comps {s s' : PState} {c : Comp} (h : s.nextFront = some (c, s')) :
    s.comps = c :: s'.comps := by
  rw [comps_unfold, h]

theorem comps_of_front_none {s : PState} (h : s.nextFront = none) : s.comps = [] := by
  rw [comps_unfold, h]

/-- State invariant: once past the beginning, the remaining tokens never start with junk
(`move_front_to_next` ran after every front step, and back steps only shorten from the right). -/
def PState.Inv (s : PState) : Prop := s.atBeg = true ∨ noLeadJunk s.k s.toks

/-- forward components of a token list, in closed form -/
def compsT (k atBeg : Bool) (ts : List Tok) : List Comp :=
  if atBeg then
    match ts with
    | [] => []
    | .sep _ :: r => .root :: body k r
    | .seg s :: r => segComp true s :: body k r
  else body k ts

theorem comps_notBeg_aux (k : Bool) : ∀ (n : Nat) (ts : List Tok), ts.length ≤ n → noLeadJunk k ts →
    PState.comps { pre := none, toks := ts, atBeg := false, k := k } = body k ts := by
  intro n
  induction n with
  | zero =>
    intro ts hlen _
    have : ts = [] := List.eq_nil_of_length_eq_zero (Nat.le_zero.mp hlen)
    subst this
    rw [comps_unfold]; simp [PState.nextFront, frontT]
  | succ n ih =>
    intro ts hlen hj
    cases ts with
    | nil => rw [comps_unfold]; simp [PState.nextFront, frontT]
    | cons t r =>
      cases t with
      | sep b => simp [noLeadJunk, junk] at hj
      | seg s =>
        rw [comps_unfold]
        simp only [PState.nextFront, frontT, Bool.false_or]
        have hlen' : (skipFront k r).length ≤ n := by
          have := length_skipFront_le k r
          simp at hlen; omega
        rw [ih (skipFront k r) hlen' (noLeadJunk_skipFront k r), body_skipFront]
        have hj' : junk k (.seg s) = false := hj
        rw [body_cons_seg r hj']

theorem comps_notBeg (k : Bool) (ts : List Tok) (h : noLeadJunk k ts) :
    PState.comps { pre := none, toks := ts, atBeg := false, k := k } = body k ts :=
  comps_notBeg_aux k ts.length ts (Nat.le_refl _) h

theorem comps_noPre (k atBeg : Bool) (ts : List Tok) (h : atBeg = true ∨ noLeadJunk k ts) :
    PState.comps { pre := none, toks := ts, atBeg := atBeg, k := k } = compsT k atBeg ts := by
  cases atBeg with
  | false =>
    have hj : noLeadJunk k ts := by cases h with | inl h => cases h | inr h => exact h
    simp [compsT, comps_notBeg k ts hj]
  | true =>
    cases ts with
    | nil => rw [comps_unfold]; simp [PState.nextFront, frontT, compsT]
    | cons t r =>
      rw [comps_unfold]
      cases t with
      | sep b =>
        simp only [PState.nextFront, frontT, if_true, compsT]
        rw [comps_notBeg k _ (noLeadJunk_skipFront k r), body_skipFront]
      | seg s =>
        simp only [PState.nextFront, frontT, Bool.true_or, if_true, compsT]
        rw [comps_notBeg k _ (noLeadJunk_skipFront k r), body_skipFront]

/-- closed form of `comps` for every state satisfying the invariant -/
theorem comps_closed (s : PState) (h : s.Inv) :
    s.comps = (match s.pre with | some p => [Comp.pfx p] | none => []) ++ compsT s.k s.atBeg s.toks := by
  obtain ⟨pre, ts, atBeg, k⟩ := s
  cases pre with
  | none => simpa using comps_noPre k atBeg ts h
  | some p =>
    rw [comps_unfold]
    simp only [PState.nextFront]
    rw [comps_noPre k atBeg ts h]
    simp

theorem nextFront_inv {s s' : PState} {c : Comp} (h : s.nextFront = some (c, s')) (hi : s.Inv) : s'.Inv := by
  unfold PState.nextFront at h
  cases hp : s.pre with
  | some p =>
    simp only [hp, Option.some.injEq, Prod.mk.injEq] at h
    rw [← h.2]; exact hi
  | none =>
    simp only [hp] at h
    cases hf : frontT s.k s.atBeg s.toks with
    | none => simp [hf] at h
    | some r =>
      obtain ⟨c', ts'⟩ := r
      simp only [hf, Option.some.injEq, Prod.mk.injEq] at h
      rw [← h.2]
      right
      simp only
      cases hts : s.toks with
      | nil => simp [hts, frontT] at hf
      | cons t r =>
        rw [hts] at hf
        cases t with
        | sep b =>
          simp only [frontT] at hf
          split at hf
          · simp only [Option.some.injEq, Prod.mk.injEq] at hf
            rw [← hf.2]; exact noLeadJunk_skipFront _ _
          · simp at hf
        | seg sg =>
          simp only [frontT, Option.some.injEq, Prod.mk.injEq] at hf
          rw [← hf.2]; exact noLeadJunk_skipFront _ _

end TP

namespace TP

def headComp : Tok → Comp
  | .sep _ => .root
  | .seg s => segComp true s

theorem compsT_true_cons (k : Bool) (t : Tok) (r : List Tok) :
    compsT k true (t :: r) = headComp t :: body k r := by
  cases t <;> simp [compsT, headComp]

@[simp] theorem compsT_nil (k atBeg : Bool) : compsT k atBeg [] = [] := by
  cases atBeg <;> simp [compsT]

theorem frontT_cons_true (k : Bool) (t : Tok) (r : List Tok) :
    frontT k true (t :: r) = some (headComp t, skipFront k r) := by
  cases t <;> simp [frontT, headComp]

theorem noLeadJunk_of_append {k : Bool} {a b : List Tok} (h : noLeadJunk k (a ++ b)) : noLeadJunk k a := by
  cases a with
  | nil => trivial
  | cons x a => simpa [noLeadJunk] using h

theorem segComp_of_not_junk {k : Bool} {s : Bytes} (h : junk k (.seg s) = false) :
    segComp true s = segComp k s := by
  cases k with
  | true => rfl
  | false =>
    have hs : s ≠ CUR := by simpa [junk] using h
    simp [segComp, hs]

theorem startsRootOrCur_of_junk {k : Bool} {t : Tok} {r : List Tok} (h : junk k t = true) :
    startsRootOrCur (t :: r) = true := by
  cases t with
  | sep b => rfl
  | seg s =>
    have : s = CUR := by
      cases k <;> simp [junk] at h
      exact h
    simp [startsRootOrCur, this]

theorem list_eq_dropLast_append {α} {l : List α} {a : α} (h : l.getLast? = some a) :
    l = l.dropLast ++ [a] := by
  have hne : l ≠ [] := by intro h0; simp [h0] at h
  have h1 := List.dropLast_concat_getLast hne
  have h2 : l.getLast hne = a := by
    have := List.getLast?_eq_some_getLast hne
    rw [h] at this
    exact (Option.some.inj this).symm
  rw [h2] at h1
  exact h1.symm

/-- (B) on tokens: a successful back step removes exactly the last forward component, and
keeps the invariant. -/
theorem backT_spec {k atBeg : Bool} {ts ts' : List Tok} {c : Comp}
    (hi : atBeg = true ∨ noLeadJunk k ts) (h : backT k atBeg ts = some (c, ts')) :
    compsT k atBeg ts = compsT k atBeg ts' ++ [c] ∧ (atBeg = true ∨ noLeadJunk k ts') := by
  obtain ⟨j, hj, hjunk⟩ := skipBack_split k ts
  unfold backT at h
  simp only at h
  split at h
  · -- at the beginning and only junk is left: the front parser decides
    rename_i hcond
    obtain ⟨hbeg, ht1⟩ := hcond
    subst hbeg
    have hall : ∀ t ∈ ts, junk k t = true := skipBack_eq_nil_iff.mp ht1
    cases ts with
    | nil => simp [frontT] at h
    | cons t r =>
      rw [frontT_cons_true] at h
      simp only [Option.map_some, Option.some.injEq, Prod.mk.injEq] at h
      obtain ⟨hc, hts'⟩ := h
      subst hc; subst hts'
      refine ⟨?_, Or.inl rfl⟩
      rw [compsT_true_cons, body_all_junk (fun t ht => hall t (by simp [ht]))]
      simp
  · rename_i hcond
    split at h
    · rename_i s hlast
      simp only [Option.some.injEq, Prod.mk.injEq] at h
      obtain ⟨hc, hts'⟩ := h
      have hnj : junk k (.seg s) = false := skipBack_getLast hlast
      have ht1 : skipBack k ts = (skipBack k ts).dropLast ++ [.seg s] := list_eq_dropLast_append hlast
      generalize hr : (skipBack k ts).dropLast = r at *
      have hts : ts = r ++ [.seg s] ++ j := by rw [← ht1]; exact hj
      obtain ⟨j', hj', hjunk'⟩ := skipBack_split k r
      cases atBeg with
      | false =>
        have hnl : noLeadJunk k ts := by cases hi with | inl h => cases h | inr h => exact h
        simp only [Bool.false_eq_true, false_and, if_false] at hts'
        subst hc; subst hts'
        constructor
        · simp only [compsT, Bool.false_eq_true, if_false]
          rw [body_skipBack, hts, body_append, body_append, body_all_junk hjunk, body_cons_seg [] hnj]
          simp
        · right
          have h1 : noLeadJunk k (r ++ ([.seg s] ++ j)) := by simpa [hts] using hnl
          have h2 : noLeadJunk k r := noLeadJunk_of_append h1
          rw [hj'] at h2
          exact noLeadJunk_of_append h2
      | true =>
        refine ⟨?_, Or.inl rfl⟩
        subst hc
        cases r with
        | nil =>
          simp only [skipBack, List.reverse_nil, List.dropWhile_nil, startsRootOrCur, List.take_nil] at hts'
          have : ts' = [] := by
            rw [← hts']; simp
          subst this
          rw [hts]
          simp only [List.nil_append, List.cons_append, compsT_true_cons, compsT_nil, headComp]
          rw [body_all_junk hjunk, segComp_of_not_junk hnj]
        | cons t r0 =>
          rw [hts]
          simp only [List.cons_append, compsT_true_cons]
          rw [body_append, body_append, body_all_junk hjunk, body_cons_seg [] hnj]
          by_cases hr' : skipBack k (t :: r0) = []
          · -- everything before the name was junk: keep exactly the first token
            have hallj : ∀ x ∈ t :: r0, junk k x = true := skipBack_eq_nil_iff.mp hr'
            have hsr : startsRootOrCur (t :: r0) = true := startsRootOrCur_of_junk (hallj t (by simp))
            simp only [hsr, hr', and_self, if_true, List.take_succ_cons, List.take_zero] at hts'
            subst hts'
            rw [compsT_true_cons, body_all_junk (fun x hx => hallj x (by simp [hx]))]
            simp
          · simp only [hr', and_false, if_false] at hts'
            subst hts'
            -- skipBack keeps a non-empty prefix, hence the same first token
            cases hsb : skipBack k (t :: r0) with
            | nil => exact absurd hsb hr'
            | cons t' r0' =>
              rw [hsb] at hj'
              simp only [List.cons_append, List.cons.injEq] at hj'
              obtain ⟨htt, hr0⟩ := hj'
              subst htt
              rw [compsT_true_cons, hr0, body_append, body_all_junk hjunk']
              simp
    · simp at h

end TP

namespace TP

theorem PState.preList_def (s : PState) :
    (match s.pre with | some p => [Comp.pfx p] | none => ([] : List Comp)) =
      (match s.pre with | some p => [Comp.pfx p] | none => []) := rfl

/-- (B): a successful back step removes exactly the last forward component. -/
theorem back_comps {s s' : PState} {c : Comp} (hi : s.Inv) (h : s.nextBack = some (c, s')) :
    s.comps = s'.comps ++ [c] ∧ s'.Inv := by
  unfold PState.nextBack at h
  split at h
  · rename_i hne
    cases hb : backT s.k s.atBeg s.toks with
    | none => simp [hb] at h
    | some r =>
      obtain ⟨c', ts'⟩ := r
      simp only [hb, Option.some.injEq, Prod.mk.injEq] at h
      obtain ⟨hc, hs'⟩ := h
      subst hc
      obtain ⟨h1, h2⟩ := backT_spec hi hb
      have hi' : s'.Inv := by rw [← hs']; exact h2
      refine ⟨?_, hi'⟩
      rw [comps_closed s hi, comps_closed s' hi', h1, ← hs']
      simp [List.append_assoc]
  · rename_i he
    have hts : s.toks = [] := by simpa using he
    cases hp : s.pre with
    | none => simp [hp] at h
    | some p =>
      simp only [hp, Option.some.injEq, Prod.mk.injEq] at h
      obtain ⟨hc, hs'⟩ := h
      subst hc
      have hi' : s'.Inv := by rw [← hs']; exact hi
      refine ⟨?_, hi'⟩
      rw [comps_closed s hi, comps_closed s' hi', ← hs']
      simp [hp, hts]

theorem backT_isSome {k atBeg : Bool} {ts : List Tok} (hi : atBeg = true ∨ noLeadJunk k ts)
    (hne : ts ≠ []) : (backT k atBeg ts).isSome = true := by
  unfold backT
  simp only
  split
  · rename_i hcond
    obtain ⟨hbeg, _⟩ := hcond
    subst hbeg
    cases ts with
    | nil => exact absurd rfl hne
    | cons t r => rw [frontT_cons_true]; rfl
  · rename_i hcond
    have hne1 : skipBack k ts ≠ [] := by
      intro h0
      cases atBeg with
      | true => exact hcond ⟨rfl, h0⟩
      | false =>
        have hnl : noLeadJunk k ts := by cases hi with | inl h => cases h | inr h => exact h
        cases ts with
        | nil => exact absurd rfl hne
        | cons t r =>
          have := skipBack_eq_nil_iff.mp h0 t (by simp)
          simp [noLeadJunk] at hnl
          rw [hnl] at this; cases this
    cases hl : (skipBack k ts).getLast? with
    | none => simp [List.getLast?_eq_none_iff] at hl; exact absurd hl hne1
    | some t =>
      have hnj := skipBack_getLast hl
      cases t with
      | sep b => simp [junk] at hnj
      | seg s => simp

/-- (E): under the invariant the two ends are exhausted together. -/
theorem front_none_iff_back_none {s : PState} (hi : s.Inv) :
    s.nextFront = none ↔ s.nextBack = none := by
  obtain ⟨pre, ts, atBeg, k⟩ := s
  cases pre with
  | some p =>
    constructor
    · intro h; simp [PState.nextFront] at h
    · intro h
      unfold PState.nextBack at h
      simp only at h
      split at h
      · rename_i hne
        have := backT_isSome hi hne
        cases hb : backT k atBeg ts with
        | none => simp [hb] at this
        | some r => simp [hb] at h
      · simp at h
  | none =>
    cases ts with
    | nil => simp [PState.nextFront, PState.nextBack, frontT]
    | cons t r =>
      have hsome := backT_isSome hi (List.cons_ne_nil t r)
      constructor
      · intro h
        exfalso
        simp only [PState.nextFront] at h
        cases t with
        | seg sg => simp [frontT] at h
        | sep b =>
          cases atBeg with
          | true => simp [frontT] at h
          | false =>
            cases hi with
            | inl h' => cases h'
            | inr h' => simp [noLeadJunk, junk] at h'
      · intro h
        exfalso
        simp only [PState.nextBack] at h
        cases hb : backT k atBeg (t :: r) with
        | none => simp [hb] at hsome
        | some x => simp [hb] at h

theorem comps_nil_iff_front_none {s : PState} : s.comps = [] ↔ s.nextFront = none := by
  constructor
  · intro h
    rw [comps_unfold] at h
    cases hf : s.nextFront with
    | none => rfl
    | some r => simp [hf] at h
  · exact comps_of_front_none

/-- iterating from the back yields the forward components in reverse -/
theorem compsBack_eq_reverse_aux : ∀ (n : Nat) (s : PState), s.size ≤ n → s.Inv →
    s.compsBack = s.comps.reverse := by
  intro n
  induction n with
  | zero =>
    intro s hn hi
    rw [compsBack_unfold]
    cases hb : s.nextBack with
    | none =>
      have := (front_none_iff_back_none hi).mpr hb
      simp [comps_of_front_none this]
    | some r =>
      obtain ⟨c, s'⟩ := r
      have := nextBack_size hb
      omega
  | succ n ih =>
    intro s hn hi
    rw [compsBack_unfold]
    cases hb : s.nextBack with
    | none =>
      have := (front_none_iff_back_none hi).mpr hb
      simp [comps_of_front_none this]
    | some r =>
      obtain ⟨c, s'⟩ := r
      obtain ⟨h1, h2⟩ := back_comps hi hb
      have hsz := nextBack_size hb
      simp only
      rw [ih s' (by omega) h2, h1]
      simp

theorem compsBack_eq_reverse (s : PState) (hi : s.Inv) : s.compsBack = s.comps.reverse :=
  compsBack_eq_reverse_aux s.size s (Nat.le_refl _) hi

/-! ### Interleavings -/

/-- run a sequence of steps (`true` = from the back); a failed step leaves the state as it is -/
def runSteps (s : PState) : List Bool → List (Option Comp) × PState
  | [] => ([], s)
  | b :: bs =>
    match (if b then s.nextBack else s.nextFront) with
    | some (c, s') => let r := runSteps s' bs; (some c :: r.1, r.2)
    | none => let r := runSteps s bs; (none :: r.1, r.2)

/-- the same on a plain list: take from either end -/
def takeSteps (l : List Comp) : List Bool → List (Option Comp) × List Comp
  | [] => ([], l)
  | b :: bs =>
    if b then
      match l.getLast? with
      | some c => let r := takeSteps l.dropLast bs; (some c :: r.1, r.2)
      | none => let r := takeSteps l bs; (none :: r.1, r.2)
    else
      match l with
      | c :: t => let r := takeSteps t bs; (some c :: r.1, r.2)
      | [] => let r := takeSteps [] bs; (none :: r.1, r.2)

/-- Every interleaving of front and back steps yields, step by step, exactly what taking
from the corresponding end of the forward component list yields; afterwards the untouched
middle is what forward iteration of the remaining state gives. -/
theorem runSteps_eq_takeSteps (steps : List Bool) : ∀ (s : PState), s.Inv →
    (runSteps s steps).1 = (takeSteps s.comps steps).1 ∧
    (runSteps s steps).2.comps = (takeSteps s.comps steps).2 ∧ (runSteps s steps).2.Inv := by
  induction steps with
  | nil => intro s hi; exact ⟨rfl, rfl, hi⟩
  | cons b bs ih =>
    intro s hi
    cases b with
    | false =>
      simp only [runSteps, takeSteps, Bool.false_eq_true, if_false]
      cases hf : s.nextFront with
      | none =>
        have hc := comps_of_front_none hf
        simp only [hc]
        have := ih s hi
        rw [hc] at this
        exact ⟨by simp [this.1], this.2.1, this.2.2⟩
      | some r =>
        obtain ⟨c, s'⟩ := r
        have hc := front_comps hf
        have hi' := nextFront_inv hf hi
        simp only [hc]
        have := ih s' hi'
        exact ⟨by simp [this.1], this.2.1, this.2.2⟩
    | true =>
      simp only [runSteps, takeSteps, if_true]
      cases hb : s.nextBack with
      | none =>
        have hf := (front_none_iff_back_none hi).mpr hb
        have hc := comps_of_front_none hf
        simp only [hc, List.getLast?_nil]
        have := ih s hi
        rw [hc] at this
        exact ⟨by simp [this.1], this.2.1, this.2.2⟩
      | some r =>
        obtain ⟨c, s'⟩ := r
        obtain ⟨hc, hi'⟩ := back_comps hi hb
        simp only [hc, List.getLast?_append, List.getLast?_singleton, Option.some_or,
          List.dropLast_concat]
        have := ih s' hi'
        exact ⟨by simp [this.1], this.2.1, this.2.2⟩

end TP
