/-
Lemmas/EncNew.lean — facts about freshly created parser states (`Parser::new`).
-/
import TypedPathVerif.Lemmas.Laws
import TypedPathVerif.Model.Enc

namespace TP

theorem Enc.new_atBeg (e : Enc) (b : Bytes) : (e.new b).atBeg = true := by
  cases e with
  | unix => rfl
  | windows =>
    simp only [Enc.new]
    split <;> rfl

theorem Enc.new_inv (e : Enc) (b : Bytes) : (e.new b).Inv := Or.inl (Enc.new_atBeg e b)

theorem untoks_toks (isSep : UInt8 → Bool) (b : Bytes) : untoks (toks isSep b) = b := by
  induction b with
  | nil => rfl
  | cons x xs ih =>
    simp only [toks]
    split
    · simp [untoks, Tok.bytes, ih]
    · split
      · rename_i s r hr
        rw [hr] at ih
        simp only [untoks, Tok.bytes] at ih ⊢
        simp [ih]
      · simp only [untoks, Tok.bytes]
        simp [ih]

theorem unix_new_remaining (b : Bytes) : (Enc.new .unix b).remaining = b := by
  simp [Enc.new, PState.remaining, PState.preBytes, untoks_toks]

/-- what `parsePrefix` returns is a suffix of its input -/
def IsSuffixOf (r b : Bytes) : Prop := ∃ p, b = p ++ r

end TP

namespace TP

theorem IsSuffixOf.refl (b : Bytes) : IsSuffixOf b b := ⟨[], rfl⟩

theorem IsSuffixOf.trans {a b c : Bytes} (h1 : IsSuffixOf a b) (h2 : IsSuffixOf b c) : IsSuffixOf a c := by
  obtain ⟨p, hp⟩ := h1
  obtain ⟨q, hq⟩ := h2
  exact ⟨q ++ p, by rw [hq, hp, List.append_assoc]⟩

theorem IsSuffixOf.cons {r b : Bytes} (x : UInt8) (h : IsSuffixOf r b) : IsSuffixOf r (x :: b) := by
  obtain ⟨p, hp⟩ := h
  exact ⟨x :: p, by rw [hp]; rfl⟩

theorem takeNormal_suffix {norm : Bool} {b n r : Bytes} (h : takeNormal norm b = some (n, r)) :
    IsSuffixOf r b ∧ b = n ++ r := by
  unfold takeNormal at h
  simp only at h
  split at h
  · cases h
  · simp only [Option.some.injEq, Prod.mk.injEq] at h
    obtain ⟨h1, h2⟩ := h
    have : b = n ++ r := by rw [← h1, ← h2, List.takeWhile_append_dropWhile]
    exact ⟨⟨n, this⟩, this⟩

theorem takeSep_suffix {norm : Bool} {b r : Bytes} (h : takeSep norm b = some r) : IsSuffixOf r b := by
  cases b with
  | nil => simp [takeSep] at h
  | cons x xs =>
    simp only [takeSep] at h
    split at h
    · simp only [Option.some.injEq] at h
      subst h; exact ⟨[x], rfl⟩
    · cases h

theorem maybeSep_suffix (norm : Bool) (b : Bytes) : IsSuffixOf (maybeSep norm b) b := by
  unfold maybeSep
  cases h : takeSep norm b with
  | none => exact IsSuffixOf.refl b
  | some r => exact takeSep_suffix h

theorem verbatimHdr_suffix {b r : Bytes} (h : verbatimHdr b = some r) : IsSuffixOf r b := by
  match b, h with
  | a :: b' :: q :: c :: rest, h =>
    simp only [verbatimHdr] at h
    split at h
    · simp only [Option.some.injEq] at h
      subst h; exact ⟨[a, b', q, c], rfl⟩
    · cases h

theorem diskByte_suffix {b r : Bytes} {d : UInt8} (h : diskByte b = some (d, r)) : IsSuffixOf r b := by
  match b, h with
  | x :: c :: rest, h =>
    simp only [diskByte] at h
    split at h
    · simp only [Option.some.injEq, Prod.mk.injEq] at h
      rw [← h.2]; exact ⟨[x, c], rfl⟩
    · cases h

theorem takeUNC_suffix {b r : Bytes} (h : takeUNC b = some r) : IsSuffixOf r b := by
  unfold takeUNC at h
  split at h
  · simp only [Option.some.injEq] at h
    subst h; exact ⟨[85, 78, 67], rfl⟩
  · cases h

theorem serverShare_suffix {norm : Bool} {b sv sh r : Bytes} (h : serverShare norm b = some (sv, sh, r)) :
    IsSuffixOf r b := by
  unfold serverShare at h
  cases h1 : takeNormal norm b with
  | none => simp [h1] at h
  | some x =>
    obtain ⟨server, r1⟩ := x
    simp only [h1] at h
    have s1 := (takeNormal_suffix h1).1
    have s2 := maybeSep_suffix norm r1
    cases h2 : takeNormal norm (maybeSep norm r1) with
    | none =>
      simp only [h2, Option.some.injEq, Prod.mk.injEq] at h
      rw [← h.2.2]; exact s2.trans s1
    | some y =>
      obtain ⟨share, r2⟩ := y
      simp only [h2, Option.some.injEq, Prod.mk.injEq] at h
      rw [← h.2.2]; exact ((takeNormal_suffix h2).1.trans s2).trans s1

theorem prefixVerbatimUNC_suffix {b r : Bytes} {k : WPrefix} (h : prefixVerbatimUNC b = some (k, r)) :
    IsSuffixOf r b := by
  unfold prefixVerbatimUNC at h
  simp only at h
  cases h1 : verbatimHdr b with
  | none => simp [h1] at h
  | some r1 =>
    simp only [h1] at h
    cases h2 : takeUNC r1 with
    | none => simp [h2] at h
    | some r2 =>
      simp only [h2] at h
      cases h3 : takeSep (!startsWith b VERB) r2 with
      | none => simp [h3] at h
      | some r3 =>
        simp only [h3] at h
        cases h4 : serverShare (!startsWith b VERB) r3 with
        | none => simp [h4] at h
        | some x =>
          obtain ⟨sv, sh, r4⟩ := x
          simp only [h4, Option.some.injEq, Prod.mk.injEq] at h
          rw [← h.2]
          exact (((serverShare_suffix h4).trans (takeSep_suffix h3)).trans (takeUNC_suffix h2)).trans (verbatimHdr_suffix h1)

theorem prefixVerbatimDisk_suffix {b r : Bytes} {k : WPrefix} (h : prefixVerbatimDisk b = some (k, r)) :
    IsSuffixOf r b := by
  unfold prefixVerbatimDisk at h
  cases h1 : verbatimHdr b with
  | none => simp [h1] at h
  | some r1 =>
    simp only [h1] at h
    cases h2 : diskByte r1 with
    | none => simp [h2] at h
    | some x =>
      obtain ⟨d, r2⟩ := x
      simp only [h2, Option.some.injEq, Prod.mk.injEq] at h
      rw [← h.2]
      exact (diskByte_suffix h2).trans (verbatimHdr_suffix h1)

theorem prefixVerbatim_suffix {b r : Bytes} {k : WPrefix} (h : prefixVerbatim b = some (k, r)) :
    IsSuffixOf r b := by
  unfold prefixVerbatim at h
  split at h
  · cases h
  · split at h
    · cases h
    · simp only at h
      cases h1 : verbatimHdr b with
      | none => simp [h1] at h
      | some r1 =>
        simp only [h1] at h
        cases h2 : takeNormal (!startsWith b VERB) r1 with
        | some x =>
          obtain ⟨name, r2⟩ := x
          simp only [h2, Option.some.injEq, Prod.mk.injEq] at h
          rw [← h.2]
          exact (takeNormal_suffix h2).1.trans (verbatimHdr_suffix h1)
        | none =>
          simp only [h2] at h
          cases h3 : takeSep (!startsWith b VERB) r1 with
          | none => simp [h3] at h
          | some r3 =>
            simp only [h3, Option.some.injEq, Prod.mk.injEq] at h
            rw [← h.2]
            exact verbatimHdr_suffix h1

theorem prefixDeviceNS_suffix {b r : Bytes} {k : WPrefix} (h : prefixDeviceNS b = some (k, r)) :
    IsSuffixOf r b := by
  match b, h with
  | a :: b' :: d :: c :: rest, h =>
    simp only [prefixDeviceNS] at h
    split at h
    · cases h2 : takeNormal true rest with
      | none => simp [h2] at h
      | some x =>
        obtain ⟨dev, r2⟩ := x
        simp only [h2, Option.some.injEq, Prod.mk.injEq] at h
        rw [← h.2]
        exact (takeNormal_suffix h2).1.trans ⟨[a, b', d, c], rfl⟩
    · cases h

theorem prefixUNC_suffix {b r : Bytes} {k : WPrefix} (h : prefixUNC b = some (k, r)) :
    IsSuffixOf r b := by
  match b, h with
  | a :: b' :: rest, h =>
    simp only [prefixUNC] at h
    split at h
    · cases h2 : serverShare true rest with
      | none => simp [h2] at h
      | some x =>
        obtain ⟨sv, sh, r2⟩ := x
        simp only [h2, Option.some.injEq, Prod.mk.injEq] at h
        rw [← h.2]
        exact (serverShare_suffix h2).trans ⟨[a, b'], rfl⟩
    · cases h

theorem prefixDisk_suffix {b r : Bytes} {k : WPrefix} (h : prefixDisk b = some (k, r)) :
    IsSuffixOf r b := by
  unfold prefixDisk at h
  cases h2 : diskByte b with
  | none => simp [h2] at h
  | some x =>
    obtain ⟨d, r2⟩ := x
    simp only [h2, Option.some.injEq, Prod.mk.injEq] at h
    rw [← h.2]
    exact diskByte_suffix h2

theorem parsePrefix_suffix {b r : Bytes} {k : WPrefix} (h : parsePrefix b = some (k, r)) :
    IsSuffixOf r b := by
  unfold parsePrefix at h
  cases h1 : prefixVerbatimUNC b with
  | some x => simp only [h1, Option.orElse_some, Option.some.injEq] at h; subst h; exact prefixVerbatimUNC_suffix h1
  | none =>
    simp only [h1, Option.orElse_none] at h
    cases h2 : prefixVerbatimDisk b with
    | some x => simp only [h2, Option.orElse_some, Option.some.injEq] at h; subst h; exact prefixVerbatimDisk_suffix h2
    | none =>
      simp only [h2, Option.orElse_none] at h
      cases h3 : prefixVerbatim b with
      | some x => simp only [h3, Option.orElse_some, Option.some.injEq] at h; subst h; exact prefixVerbatim_suffix h3
      | none =>
        simp only [h3, Option.orElse_none] at h
        cases h4 : prefixDeviceNS b with
        | some x => simp only [h4, Option.orElse_some, Option.some.injEq] at h; subst h; exact prefixDeviceNS_suffix h4
        | none =>
          simp only [h4, Option.orElse_none] at h
          cases h5 : prefixUNC b with
          | some x => simp only [h5, Option.orElse_some, Option.some.injEq] at h; subst h; exact prefixUNC_suffix h5
          | none =>
            simp only [h5, Option.orElse_none] at h
            exact prefixDisk_suffix h

/-- `win_prefix_raw`: the raw prefix text followed by the rest is the input -/
theorem parsePrefixComp_raw {b rest : Bytes} {p : PrefixComp} (h : parsePrefixComp b = some (p, rest)) :
    p.raw ++ rest = b := by
  unfold parsePrefixComp at h
  cases h1 : parsePrefix b with
  | none => simp [h1] at h
  | some x =>
    obtain ⟨k, r⟩ := x
    simp only [h1, Option.some.injEq, Prod.mk.injEq] at h
    obtain ⟨hp, hr⟩ := h
    subst hr
    obtain ⟨pre, hpre⟩ := parsePrefix_suffix h1
    rw [← hp]
    simp only
    subst hpre
    simp

theorem new_remaining (e : Enc) (b : Bytes) : (e.new b).remaining = b := by
  cases e with
  | unix => exact unix_new_remaining b
  | windows =>
    simp only [Enc.new]
    split
    · rename_i p rest h
      simp only [PState.remaining, PState.preBytes, untoks_toks]
      exact parsePrefixComp_raw h
    · simp [PState.remaining, PState.preBytes, untoks_toks]

end TP
