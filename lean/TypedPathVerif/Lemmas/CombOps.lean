/-
Lemmas/CombOps.lean — the checked transcriptions of `Model/Comb/Ops.lean` never fault and equal
the total model functions of `Model/Path.lean`.
-/
import TypedPathVerif.Model.Comb.Ops
import TypedPathVerif.Props.C02

namespace TP.Comb.Ops

open TP TP.Comb

/-- invariant of the hash loop at iteration `i`: `component_start ≤ i + 1`… in fact `≤ i` may
fail by at most the one skipped `.`, so the useful bound is against the length -/
def HInv (bytes : Bytes) (st : HashSt) : Prop := st.start ≤ bytes.length + 1

theorem hashStepC_eq (isSep : UInt8 → Bool) (skipDot : Bool) (dotSep : UInt8 → Bool) (bytes : Bytes)
    (st : HashSt) (i : Nat) (hi : i < bytes.length) :
    hashStepC isSep skipDot dotSep bytes st i = some (hashStep isSep skipDot dotSep bytes st i) := by
  unfold hashStepC hashStep
  have hidx : idx bytes i = some (bytes.getD i 0) := by
    simp [idx, List.getD, List.getElem?_eq_getElem hi]
  rw [hidx]
  simp only
  by_cases hs : isSep (bytes.getD i 0) = true
  · simp only [hs, if_true]
    have hsf : sliceFrom bytes (i + 1) = some (bytes.drop (i + 1)) := by
      simp [sliceFrom]; omega
    by_cases hgt : i > st.start
    · have hsl : slice bytes st.start i = some ((bytes.drop st.start).take (i - st.start)) := by
        simp [slice]; omega
      simp only [hgt, if_true, hsl, hsf]
      cases bytes.drop (i + 1) with
      | nil => rfl
      | cons d t => cases t <;> rfl
    · simp only [hgt, if_false, hsf]
      cases bytes.drop (i + 1) with
      | nil => rfl
      | cons d t => cases t <;> rfl
  · rw [if_neg hs, if_neg hs]

theorem hashLoopC_eq (isSep : UInt8 → Bool) (skipDot : Bool) (dotSep : UInt8 → Bool) (bytes : Bytes) :
    ∀ (is : List Nat) (st : HashSt), (∀ i ∈ is, i < bytes.length) →
      hashLoopC isSep skipDot dotSep bytes is st = some (is.foldl (hashStep isSep skipDot dotSep bytes) st) := by
  intro is
  induction is with
  | nil => intro st _; rfl
  | cons i is ih =>
    intro st h
    simp only [hashLoopC, hashStepC_eq isSep skipDot dotSep bytes st i (h i (by simp)), List.foldl_cons]
    exact ih _ (fun j hj => h j (by simp [hj]))

/-- the checked hash loop never faults and writes exactly what the model's loop writes -/
theorem hashBodyC_eq (isSep : UInt8 → Bool) (skipDot : Bool) (dotSep : UInt8 → Bool) (bytes : Bytes)
    (pre : List Bytes) :
    hashBodyC isSep skipDot dotSep bytes pre = some (hashBody isSep skipDot dotSep bytes pre) := by
  unfold hashBodyC hashBody
  rw [hashLoopC_eq isSep skipDot dotSep bytes _ _ (fun i hi => by simpa using hi)]
  simp only
  split
  · rename_i hlt
    have : sliceFrom bytes ((List.range bytes.length).foldl (hashStep isSep skipDot dotSep bytes) ⟨0, 0, pre⟩).start
        = some (bytes.drop ((List.range bytes.length).foldl (hashStep isSep skipDot dotSep bytes) ⟨0, 0, pre⟩).start) := by
      simp only [sliceFrom, Nat.le_of_lt hlt, if_true]
    simp [this]
  · rfl

theorem wPrefix_raw_le (b : Bytes) (p : PrefixComp) (h : wPrefix b = some p) : p.raw.length ≤ b.length := by
  obtain ⟨⟨rest, hr⟩, _⟩ := C02.win_prefix_raw b p h
  rw [← hr]; simp

/-- **`Encoding::hash` never indexes out of range**, and computes the model's chunk sequence -/
theorem hashChunksC_eq (e : Enc) (b : Bytes) : hashChunksC e b = some (hashChunks e b) := by
  cases e with
  | unix => exact hashBodyC_eq _ _ _ _ _
  | windows =>
    simp only [hashChunksC, hashChunks]
    cases hp : wPrefix b with
    | none => exact hashBodyC_eq _ _ _ _ _
    | some p =>
      have hle := wPrefix_raw_le b p hp
      simp only [sliceFrom, hle, if_true]
      exact hashBodyC_eq _ _ _ _ _

/-- **`normal_cnt -= 1` never underflows**: the checked scan never faults and is the model's scan -/
theorem checkedScanC_eq (e : Enc) : ∀ (cs : List Comp) (n : Nat), checkedScanC e n cs = some (checkedScan e n cs) := by
  intro cs
  induction cs with
  | nil => intro n; rfl
  | cons c cs ih =>
    intro n
    cases c with
    | pfx p => rfl
    | root => rfl
    | cur => simp only [checkedScanC, checkedScan]; exact ih n
    | parent =>
      simp only [checkedScanC, checkedScan]
      by_cases h0 : n = 0
      · simp [h0]
      · have : checkedSub n 1 = some (n - 1) := by simp [checkedSub]; omega
        simp only [h0, if_false, this]
        exact ih (n - 1)
    | normal s =>
      simp only [checkedScanC, checkedScan]
      split
      · rfl
      · exact ih (n + 1)

end TP.Comb.Ops
