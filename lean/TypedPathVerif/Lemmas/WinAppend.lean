/-
Lemmas/WinAppend.lean — the append law (A) for Windows bases WITH a (complete, non-verbatim)
prefix: disk, device namespace, UNC.  Pushing a non-empty, prefix-free, relative argument

* onto `prefix ++ rest` with `rest ≠ ""` appends the argument's components (minus a leading `.`);
* onto a bare disk prefix `X:` puts the argument's components directly after the prefix
  (a leading `.` is kept: `C:` + `.` = `C:.`);
* onto a bare device-namespace / UNC prefix materialises the implicit root and then appends.
-/
import TypedPathVerif.Lemmas.WinReparse
import TypedPathVerif.Props.C16b

namespace TP.Win

open TP TP.JoinRules

theorem getLast?_append_ne {α : Type} (l1 l2 : List α) (h : l2 ≠ []) : (l1 ++ l2).getLast? = l2.getLast? := by
  rw [List.getLast?_append]
  cases hg : l2.getLast? with
  | none => exact absurd (List.getLast?_eq_none_iff.mp hg) h
  | some y => rfl

/-- components of a path with a stable prefix -/
theorem comps_of_stable {p : PrefixComp} (hs : Stable p) (rest : Bytes) (hok : RestOK p rest) :
    comps .windows (p.raw ++ rest) =
      .pfx p :: compsT (!normOf p.raw) true (toks (wsep (normOf p.raw)) rest) := by
  rw [C03.comps_new_closed, new_of_stable hs rest hok]
  rfl

/-- a non-verbatim complete prefix never starts with `\\?\` -/
theorem normOf_nonverbatim {b rest : Bytes} {p : PrefixComp}
    (h : parsePrefixComp b = some (p, rest)) (hc : Complete p.kind) (ht : isVerbatimKind p.kind = false) :
    normOf p.raw = true := by
  have hraw := parsePrefixComp_raw h
  have hp := parsePrefix_of_comp h
  cases hk : p.kind with
  | verbatim n => rw [hk] at ht; cases ht
  | verbatimUNC a c => rw [hk] at ht; cases ht
  | verbatimDisk d => rw [hk] at ht; cases ht
  | disk D =>
    rw [hk] at hp
    obtain ⟨d, hb, hd, _⟩ := (C02b.disk_iff b rest D).mp hp
    have hr : p.raw = [d, COLON] := by
      rw [hb] at hraw
      have : p.raw ++ rest = [d, COLON] ++ rest := by simpa using hraw
      exact List.append_cancel_right this
    have hne : BSLASH ≠ d := by intro hE; subst hE; revert hd; decide
    rw [hr]; simp [normOf, startsWith, VERB, List.isPrefixOf, hne]
  | deviceNS dev =>
    rw [hk] at hp
    obtain ⟨s1, s2, s3, hb, _⟩ := (C02b.device_ns_iff b rest dev).mp hp
    have hr : p.raw = s1 :: s2 :: DOT :: s3 :: dev := by
      rw [hb] at hraw
      have : p.raw ++ rest = (s1 :: s2 :: DOT :: s3 :: dev) ++ rest := by simpa using hraw
      exact List.append_cancel_right this
    rw [hr]; simp [normOf, startsWith, VERB, List.isPrefixOf, DOT, QMARK]
  | unc sv sh =>
    rw [hk] at hp hc
    obtain ⟨s1, s2, x, hb, _, _, _, hsvne, hsvfree, hq, _⟩ := (unc_complete_iff b rest sv sh hc).mp hp
    have hr : p.raw = s1 :: s2 :: (sv ++ x :: sh) := by
      rw [hb] at hraw
      have : p.raw ++ rest = (s1 :: s2 :: (sv ++ x :: sh)) ++ rest := by simpa using hraw
      exact List.append_cancel_right this
    rw [hr]
    match sv, hsvne with
    | [q], _ =>
      have : q ≠ QMARK := fun h => hq (by rw [h])
      have : QMARK ≠ q := fun h => this h.symm
      simp [normOf, startsWith, VERB, List.isPrefixOf, this]
    | q :: c :: t, _ =>
      have hc' : anySep c = false := hsvfree c (by simp)
      have : BSLASH ≠ c := by intro hE; rw [← hE] at hc'; revert hc'; decide
      simp [normOf, startsWith, VERB, List.isPrefixOf, this]

/-- the raw text of a complete device-namespace / UNC prefix does not end with a separator -/
theorem raw_last_not_sep {b rest : Bytes} {p : PrefixComp}
    (h : parsePrefixComp b = some (p, rest)) (hc : Complete p.kind) (ht : isVerbatimKind p.kind = false)
    (hnd : ∀ d, p.kind ≠ .disk d) : endsWithSep p.raw = false ∧ p.raw ≠ [] := by
  have hraw := parsePrefixComp_raw h
  have hp := parsePrefix_of_comp h
  have key : ∀ (pre l : Bytes), l ≠ [] → (∀ y ∈ l, anySep y = false) → endsWithSep (pre ++ l) = false := by
    intro pre l hne hfree
    have hl : (pre ++ l).getLast? = l.getLast? := getLast?_append_ne _ _ hne
    unfold endsWithSep
    rw [hl]
    cases hg : l.getLast? with
    | none => rfl
    | some y =>
      have hy : y ∈ l := List.mem_of_getLast? hg
      have := hfree y hy
      have h1 : y ≠ BSLASH := by intro hE; rw [hE] at this; revert this; decide
      have h2 : y ≠ SLASH := by intro hE; rw [hE] at this; revert this; decide
      simp [h1, h2]
  cases hk : p.kind with
  | verbatim n => rw [hk] at ht; cases ht
  | verbatimUNC a c => rw [hk] at ht; cases ht
  | verbatimDisk d => rw [hk] at ht; cases ht
  | disk D => exact absurd hk (hnd D)
  | deviceNS dev =>
    rw [hk] at hp
    obtain ⟨s1, s2, s3, hb, _, _, _, hne, hfree, _⟩ := (C02b.device_ns_iff b rest dev).mp hp
    have hr : p.raw = [s1, s2, DOT, s3] ++ dev := by
      rw [hb] at hraw
      have : p.raw ++ rest = ([s1, s2, DOT, s3] ++ dev) ++ rest := by simpa using hraw
      exact List.append_cancel_right this
    rw [hr]; exact ⟨key _ dev hne hfree, by simp⟩
  | unc sv sh =>
    rw [hk] at hp hc
    obtain ⟨s1, s2, x, hb, _, _, _, _, _, _, _, hshfree, _⟩ := (unc_complete_iff b rest sv sh hc).mp hp
    have hr : p.raw = (s1 :: s2 :: (sv ++ [x])) ++ sh := by
      rw [hb] at hraw
      have : p.raw ++ rest = ((s1 :: s2 :: (sv ++ [x])) ++ sh) ++ rest := by simpa using hraw
      exact List.append_cancel_right this
    rw [hr]; exact ⟨key _ sh hc hshfree, by simp⟩

theorem prefixOf_of_comp {b rest : Bytes} {p : PrefixComp} (h : parsePrefixComp b = some (p, rest)) :
    prefixOf b = some p := by
  unfold prefixOf; rw [h]; rfl

/-- **(A) for Windows bases with a complete non-verbatim prefix.** -/
theorem win_push_comps_prefixed (a q rest : Bytes) (p : PrefixComp)
    (hpa : parsePrefixComp a = some (p, rest)) (hc : Complete p.kind) (hnv : isVerbatimKind p.kind = false)
    (hqne : q ≠ []) (hq : C16.pfxStart q = false) (hrel : startsWithSep q = false) :
    WF (windowsPush a q) ∧
    comps .windows (windowsPush a q) =
      (if rest = [] then
        (match p.kind with
         | .disk _ => .pfx p :: comps .windows q
         | _ => .pfx p :: .root :: dropLeadingCur (comps .windows q))
       else comps .windows a ++ dropLeadingCur (comps .windows q)) := by
  have hs := stable_of_complete hpa hc
  have hok := restOK_of_complete hpa hc
  have hn := normOf_nonverbatim hpa hc hnv
  have ha := parsePrefixComp_raw hpa
  have hpo := prefixOf_of_comp hpa
  have hrule : rule a q = .append := by
    unfold rule baseIsVerbatim
    simp [hqne, C16b.prefixOf_none_of_pf q hq, hpo, hnv, hrel]
  have hbytes : windowsPush a q = joinBytes a q := C08.win_push_bytes a q (by rw [hrule]; decide)
  have hrel' := C16b.toks_rel_of_not_startsWithSep q hrel
  have hane : a ≠ [] := by
    intro h0
    have : parsePrefixComp ([] : Bytes) = none := by decide
    rw [h0, this] at hpa; cases hpa
  rw [hbytes]
  unfold joinBytes
  rw [hrule]
  simp only [hane, false_or]
  -- the argument's own components
  have hcq : comps .windows q = compsT false true (toks (wsep true) q) := C16.win_comps_pf q hq
  -- what the result looks like after the prefix, and that it is tolerated
  have fin : ∀ rest', RestOK p rest' →
      WF (p.raw ++ rest') ∧ comps .windows (p.raw ++ rest') = .pfx p :: compsT false true (toks (wsep true) rest') := by
    intro rest' hok'
    refine ⟨Or.inr ⟨p, rest', (hs rest' hok').1, hc⟩, ?_⟩
    rw [comps_of_stable hs rest' hok', hn]; rfl
  by_cases hrest : rest = []
  · -- bare prefix
    subst hrest
    simp only [List.append_nil] at ha
    simp only [if_true]
    cases hk : p.kind with
    | verbatim n => rw [hk] at hnv; cases hnv
    | verbatimUNC x y => rw [hk] at hnv; cases hnv
    | verbatimDisk d => rw [hk] at hnv; cases hnv
    | disk D =>
      have hbare : isBareDrive a = true := by
        unfold isBareDrive; rw [hpo]; simp only [hk]; simp [ha]
      simp only [hbare, or_true, if_true]
      have hok' : RestOK p q := by unfold RestOK; rw [hk]; trivial
      obtain ⟨hw, hcomp⟩ := fin q hok'
      rw [← ha]
      exact ⟨hw, by rw [hcomp, hcq]⟩
    | deviceNS dev =>
      obtain ⟨hend, _⟩ := raw_last_not_sep hpa hc hnv (by intro d hd; rw [hk] at hd; cases hd)
      have hbare : isBareDrive a = false := by
        unfold isBareDrive; rw [hpo]; simp only [hk]; rfl
      rw [ha] at hend
      simp only [hend, hbare, Bool.false_eq_true, or_self, if_false]
      have hok' : RestOK p (BSLASH :: q) := by
        unfold RestOK; rw [hk]; simp only [hn]; exact (by decide : wsep true BSLASH = true)
      obtain ⟨hw, hcomp⟩ := fin (BSLASH :: q) hok'
      rw [← ha, List.append_assoc, List.singleton_append]
      refine ⟨hw, ?_⟩
      rw [hcomp, hcq]
      have : toks (wsep true) (BSLASH :: q) = .sep BSLASH :: toks (wsep true) q := by
        simp [toks, (by decide : wsep true BSLASH = true)]
      rw [this, compsT_true_cons, C16b.gen_body_eq_dLC _ hrel']
      rfl
    | unc sv sh =>
      obtain ⟨hend, _⟩ := raw_last_not_sep hpa hc hnv (by intro d hd; rw [hk] at hd; cases hd)
      have hbare : isBareDrive a = false := by
        unfold isBareDrive; rw [hpo]; simp only [hk]; rfl
      rw [ha] at hend
      simp only [hend, hbare, Bool.false_eq_true, or_self, if_false]
      have hok' : RestOK p (BSLASH :: q) := by
        unfold RestOK; rw [hk]; simp only [hn]; exact (by decide : wsep true BSLASH = true)
      obtain ⟨hw, hcomp⟩ := fin (BSLASH :: q) hok'
      rw [← ha, List.append_assoc, List.singleton_append]
      refine ⟨hw, ?_⟩
      rw [hcomp, hcq]
      have : toks (wsep true) (BSLASH :: q) = .sep BSLASH :: toks (wsep true) q := by
        simp [toks, (by decide : wsep true BSLASH = true)]
      rw [this, compsT_true_cons, C16b.gen_body_eq_dLC _ hrel']
      rfl
  · -- something follows the prefix: the generic token-level append on `rest`
    simp only [hrest, if_false]
    have hbare : isBareDrive a = false := by
      unfold isBareDrive; rw [hpo]
      have : a ≠ p.raw := by
        intro hE
        rw [← ha] at hE
        have := List.append_cancel_left (as := p.raw) (bs := rest) (cs := []) (by simpa using hE)
        exact hrest this
      simp [this]
    have hca : comps .windows a = .pfx p :: compsT false true (toks (wsep true) rest) := by
      rw [← ha, comps_of_stable hs rest hok, hn]; rfl
    -- RestOK is kept because the first byte after the prefix is unchanged
    have hokext : ∀ tail, RestOK p (rest ++ tail) := by
      intro tail
      unfold RestOK at hok ⊢
      cases hk : p.kind with
      | disk d => trivial
      | verbatimDisk d => trivial
      | _ =>
        rw [hk] at hok
        cases rest with
        | nil => exact absurd rfl hrest
        | cons x r => exact hok
    simp only [hbare, Bool.false_eq_true, or_false]
    by_cases hend : endsWithSep a = true
    · simp only [hend, if_true]
      have hlast : ∃ x, a.getLast? = some x ∧ anySep x = true := by
        unfold endsWithSep at hend
        simp only [Bool.or_eq_true, decide_eq_true_eq] at hend
        rcases hend with h | h
        · exact ⟨BSLASH, h, by decide⟩
        · exact ⟨SLASH, h, by decide⟩
      obtain ⟨x, hx, hxs⟩ := hlast
      have hrl : rest.getLast? = some x := by
        rw [← ha, getLast?_append_ne _ _ hrest] at hx; exact hx
      have hre := list_eq_dropLast_append hrl
      generalize rest.dropLast = r' at hre
      obtain ⟨hw, hcomp⟩ := fin (rest ++ q) (hokext q)
      rw [← ha, List.append_assoc]
      refine ⟨hw, ?_⟩
      rw [hcomp, comps_of_stable hs rest hok, hn, hcq]
      simp only [Bool.not_true, List.cons_append, List.cons.injEq, true_and]
      subst hre
      rw [List.append_assoc, List.singleton_append]
      exact C16b.gen_append_comps_end (wsep true) r' q x hxs hrel'
    · simp only [hend, Bool.false_eq_true, if_false]
      obtain ⟨hw, hcomp⟩ := fin (rest ++ BSLASH :: q) (hokext _)
      have e1 : a ++ [BSLASH] ++ q = p.raw ++ (rest ++ BSLASH :: q) := by
        rw [← ha]; simp [List.append_assoc]
      rw [e1]
      refine ⟨hw, ?_⟩
      rw [hcomp, ← ha, comps_of_stable hs rest hok, hn, hcq]
      simp only [Bool.not_true, List.cons_append, List.cons.injEq, true_and]
      exact C16b.gen_append_comps (wsep true) rest q BSLASH (by decide) hrest hrel'

end TP.Win
