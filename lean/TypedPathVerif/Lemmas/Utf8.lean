/-
Lemmas/Utf8.lean — the two facts about UTF-8 the crate relies on: valid strings concatenate,
and a valid string can be cut next to any ASCII byte (an ASCII byte never occurs inside a
multi-byte character).
-/
import TypedPathVerif.Spec.Utf8
import TypedPathVerif.Lemmas.Reparse

namespace TP.Utf8

open TP

theorem le_of_cont {b : UInt8} (h : isCont b = true) : isAscii b = false := by
  simp only [isCont, Bool.and_eq_true, decide_eq_true_eq] at h
  simp only [isAscii, decide_eq_false_iff_not, UInt8.not_lt]
  exact h.1

theorem not_ascii_lead2 {b : UInt8} (h : lead2 b = true) : isAscii b = false := by
  simp only [lead2, Bool.and_eq_true, decide_eq_true_eq] at h
  simp only [isAscii, decide_eq_false_iff_not, UInt8.not_lt]
  exact UInt8.le_trans (by decide) h.1

theorem not_ascii_ok3 {b0 b1 : UInt8} (h : ok3 b0 b1 = true) : isAscii b0 = false ∧ isAscii b1 = false := by
  simp only [ok3, isCont, Bool.or_eq_true, Bool.and_eq_true, decide_eq_true_eq] at h
  simp only [isAscii, decide_eq_false_iff_not, UInt8.not_lt]
  rcases h with (⟨⟨h0, h1⟩, _⟩ | ⟨h0, h1, _⟩) | ⟨⟨h0, h1⟩, _⟩
  · exact ⟨by rw [h0]; decide, UInt8.le_trans (by decide) h1⟩
  · refine ⟨?_, h1⟩
    rcases h0 with (⟨h0, _⟩ | h0) | h0
    · exact UInt8.le_trans (by decide) h0
    · rw [h0]; decide
    · rw [h0]; decide
  · exact ⟨by rw [h0]; decide, h1⟩

theorem not_ascii_ok4 {b0 b1 : UInt8} (h : ok4 b0 b1 = true) : isAscii b0 = false ∧ isAscii b1 = false := by
  simp only [ok4, isCont, Bool.or_eq_true, Bool.and_eq_true, decide_eq_true_eq] at h
  simp only [isAscii, decide_eq_false_iff_not, UInt8.not_lt]
  rcases h with (⟨⟨h0, h1⟩, _⟩ | ⟨⟨h0, _⟩, h1, _⟩) | ⟨⟨h0, h1⟩, _⟩
  · exact ⟨by rw [h0]; decide, UInt8.le_trans (by decide) h1⟩
  · exact ⟨UInt8.le_trans (by decide) h0, h1⟩
  · exact ⟨by rw [h0]; decide, h1⟩

/-- valid strings concatenate -/
theorem Valid.append {a b : Bytes} (ha : Valid a) (hb : Valid b) : Valid (a ++ b) := by
  induction ha with
  | nil => exact hb
  | ascii x r hx _ ih => exact Valid.ascii x _ hx ih
  | two b0 b1 r h0 h1 _ ih => exact Valid.two b0 b1 _ h0 h1 ih
  | three b0 b1 b2 r h0 h2 _ ih => exact Valid.three b0 b1 b2 _ h0 h2 ih
  | four b0 b1 b2 b3 r h0 h2 h3 _ ih => exact Valid.four b0 b1 b2 b3 _ h0 h2 h3 ih

theorem Valid.tail_of_ascii {x : UInt8} {r : Bytes} (h : Valid (x :: r)) (hx : isAscii x = true) : Valid r := by
  cases h with
  | ascii _ _ _ hr => exact hr
  | two _ b1 r' h0 _ _ => rw [not_ascii_lead2 h0] at hx; cases hx
  | three _ b1 b2 r' h0 _ _ => rw [(not_ascii_ok3 h0).1] at hx; cases hx
  | four _ b1 b2 b3 r' h0 _ _ _ => rw [(not_ascii_ok4 h0).1] at hx; cases hx

/-- a valid string can be cut in front of any ASCII byte -/
theorem Valid.split_before_ascii : ∀ (n : Nat) (a : Bytes), a.length ≤ n → ∀ (x : UInt8) (b : Bytes),
    isAscii x = true → Valid (a ++ x :: b) → Valid a ∧ Valid (x :: b) := by
  intro n
  induction n with
  | zero =>
    intro a ha x b _ h
    have : a = [] := List.eq_nil_of_length_eq_zero (Nat.le_zero.mp ha)
    subst this
    exact ⟨Valid.nil, h⟩
  | succ n ih =>
    intro a ha x b hx h
    cases a with
    | nil => exact ⟨Valid.nil, h⟩
    | cons a0 a' =>
      have hlen : a'.length ≤ n := by simp at ha; omega
      generalize hl : (a0 :: a') ++ x :: b = l at h
      cases h with
      | nil => cases hl
      | ascii y r hy hr =>
        simp only [List.cons_append, List.cons.injEq] at hl
        obtain ⟨h0, h1⟩ := hl
        subst h0; subst h1
        obtain ⟨h1, h2⟩ := ih a' hlen x b hx hr
        exact ⟨Valid.ascii _ _ hy h1, h2⟩
      | two b0 b1 r h0 h1 hr =>
        simp only [List.cons_append, List.cons.injEq] at hl
        obtain ⟨e0, e1⟩ := hl
        subst e0
        cases a' with
        | nil =>
          simp only [List.nil_append, List.cons.injEq] at e1
          rw [e1.1, le_of_cont h1] at hx; cases hx
        | cons a1 a'' =>
          simp only [List.cons_append, List.cons.injEq] at e1
          obtain ⟨e1, e2⟩ := e1
          subst e1; subst e2
          obtain ⟨h1', h2'⟩ := ih a'' (by simp at hlen; omega) x b hx hr
          exact ⟨Valid.two _ _ _ h0 h1 h1', h2'⟩
      | three b0 b1 b2 r h0 h2 hr =>
        simp only [List.cons_append, List.cons.injEq] at hl
        obtain ⟨e0, e1⟩ := hl
        subst e0
        cases a' with
        | nil =>
          simp only [List.nil_append, List.cons.injEq] at e1
          rw [e1.1, (not_ascii_ok3 h0).2] at hx; cases hx
        | cons a1 a'' =>
          simp only [List.cons_append, List.cons.injEq] at e1
          obtain ⟨e1, e2⟩ := e1
          subst e1
          cases a'' with
          | nil =>
            simp only [List.nil_append, List.cons.injEq] at e2
            rw [e2.1, le_of_cont h2] at hx; cases hx
          | cons a2 a3 =>
            simp only [List.cons_append, List.cons.injEq] at e2
            obtain ⟨e2, e3⟩ := e2
            subst e2; subst e3
            obtain ⟨h1', h2'⟩ := ih a3 (by simp at hlen; omega) x b hx hr
            exact ⟨Valid.three _ _ _ _ h0 h2 h1', h2'⟩
      | four b0 b1 b2 b3 r h0 h2 h3 hr =>
        simp only [List.cons_append, List.cons.injEq] at hl
        obtain ⟨e0, e1⟩ := hl
        subst e0
        cases a' with
        | nil =>
          simp only [List.nil_append, List.cons.injEq] at e1
          rw [e1.1, (not_ascii_ok4 h0).2] at hx; cases hx
        | cons a1 a'' =>
          simp only [List.cons_append, List.cons.injEq] at e1
          obtain ⟨e1, e2⟩ := e1
          subst e1
          cases a'' with
          | nil =>
            simp only [List.nil_append, List.cons.injEq] at e2
            rw [e2.1, le_of_cont h2] at hx; cases hx
          | cons a2 a3 =>
            simp only [List.cons_append, List.cons.injEq] at e2
            obtain ⟨e2, e3⟩ := e2
            subst e2
            cases a3 with
            | nil =>
              simp only [List.nil_append, List.cons.injEq] at e3
              rw [e3.1, le_of_cont h3] at hx; cases hx
            | cons a3' a4 =>
              simp only [List.cons_append, List.cons.injEq] at e3
              obtain ⟨e3, e4⟩ := e3
              subst e3; subst e4
              obtain ⟨h1', h2'⟩ := ih a4 (by simp at hlen; omega) x b hx hr
              exact ⟨Valid.four _ _ _ _ _ h0 h2 h3 h1', h2'⟩

theorem Valid.split_ascii {a b : Bytes} {x : UInt8} (hx : isAscii x = true) (h : Valid (a ++ x :: b)) :
    Valid a ∧ Valid [x] ∧ Valid b := by
  obtain ⟨h1, h2⟩ := Valid.split_before_ascii a.length a (Nat.le_refl _) x b hx h
  exact ⟨h1, Valid.ascii x [] hx Valid.nil, h2.tail_of_ascii hx⟩

/-- cut where the right part is empty or starts with an ASCII byte -/
theorem Valid.split_at {a b : Bytes} (h : Valid (a ++ b))
    (hb : b = [] ∨ ∃ x r, b = x :: r ∧ isAscii x = true) : Valid a ∧ Valid b := by
  rcases hb with hb | ⟨x, r, hb, hx⟩
  · subst hb; rw [List.append_nil] at h; exact ⟨h, Valid.nil⟩
  · subst hb
    exact Valid.split_before_ascii a.length a (Nat.le_refl _) x r hx h

/-! ### tokens of a valid string are valid, when every separator is ASCII -/

def asciiSeps (isSep : UInt8 → Bool) : Prop := ∀ x, isSep x = true → isAscii x = true

theorem tokens_valid {isSep : UInt8 → Bool} (hs : asciiSeps isSep) : ∀ (ts : List Tok), WFToks isSep ts →
    Valid (untoks ts) → ∀ t ∈ ts, Valid t.bytes := by
  intro ts
  induction ts with
  | nil => intro _ _ t ht; simp at ht
  | cons t0 r ih =>
    intro hw hv t ht
    cases t0 with
    | sep x =>
      have hx : isAscii x = true := hs x hw.1
      simp only [untoks, Tok.bytes, List.singleton_append] at hv
      rcases List.mem_cons.mp ht with h | h
      · subst h; exact Valid.ascii x [] hx Valid.nil
      · exact ih hw.2 (hv.tail_of_ascii hx) t h
    | seg s =>
      obtain ⟨_, _, hns, hwr⟩ := hw
      simp only [untoks, Tok.bytes] at hv
      have hcut : untoks r = [] ∨ ∃ x r', untoks r = x :: r' ∧ isAscii x = true := by
        cases r with
        | nil => left; rfl
        | cons t1 r1 =>
          cases t1 with
          | sep y => right; exact ⟨y, untoks r1, by simp [untoks, Tok.bytes], hs y hwr.1⟩
          | seg s' => exact absurd hns (by simp [notSegHead])
      obtain ⟨h1, h2⟩ := Valid.split_at hv hcut
      rcases List.mem_cons.mp ht with h | h
      · subst h; exact h1
      · exact ih hwr h2 t h

/-- any concatenation of valid tokens is valid -/
theorem untoks_valid : ∀ (ts : List Tok), (∀ t ∈ ts, Valid t.bytes) → Valid (untoks ts)
  | [], _ => Valid.nil
  | t :: r, h => Valid.append (h t (by simp)) (untoks_valid r (fun t' ht' => h t' (by simp [ht'])))

/-! ### the executable check agrees with the definition -/

theorem validB_sound : ∀ (n : Nat) (b : Bytes), b.length ≤ n → validB b = true → Valid b := by
  intro n
  induction n with
  | zero =>
    intro b hb _
    have : b = [] := List.eq_nil_of_length_eq_zero (Nat.le_zero.mp hb)
    subst this; exact Valid.nil
  | succ n ih =>
    intro b hb h
    match b, h with
    | [], _ => exact Valid.nil
    | b0 :: r, h =>
      unfold validB at h
      split at h
      · rename_i h0
        exact Valid.ascii b0 r h0 (ih r (by simp at hb; omega) h)
      · match r, h with
        | [], h => cases h
        | b1 :: r1, h =>
          simp only at h
          split at h
          · rename_i hl
            simp only [Bool.and_eq_true] at h
            exact Valid.two b0 b1 r1 hl h.1 (ih r1 (by simp at hb; omega) h.2)
          · match r1, h with
            | [], h => cases h
            | b2 :: r2, h =>
              simp only at h
              split at h
              · rename_i h3
                simp only [Bool.and_eq_true] at h
                exact Valid.three b0 b1 b2 r2 h3 h.1 (ih r2 (by simp at hb; omega) h.2)
              · match r2, h with
                | [], h => cases h
                | b3 :: r3, h =>
                  simp only [Bool.and_eq_true] at h
                  exact Valid.four b0 b1 b2 b3 r3 h.1.1.1 h.1.1.2 h.1.2 (ih r3 (by simp at hb; omega) h.2)

theorem lead2_not_ok3 {b0 b1 : UInt8} (h : lead2 b0 = true) : ok3 b0 b1 = false := by
  simp only [lead2, Bool.and_eq_true, decide_eq_true_eq] at h
  have hb : b0.toNat ≤ 0xDF := by have := h.2; rw [UInt8.le_iff_toNat_le] at this; simpa using this
  simp only [ok3, Bool.or_eq_false_iff, Bool.and_eq_false_iff, decide_eq_false_iff_not, Bool.or_eq_false_iff]
  have ne : ∀ (c : UInt8), 0xDF < c.toNat → b0 ≠ c := fun c hc hbc => by rw [hbc] at hb; omega
  refine ⟨⟨Or.inl (Or.inl (ne 0xE0 (by decide))), Or.inl ⟨⟨Or.inl ?_, ne 0xEE (by decide)⟩, ne 0xEF (by decide)⟩⟩,
    Or.inl (Or.inl (ne 0xED (by decide)))⟩
  intro h'
  rw [UInt8.le_iff_toNat_le] at h'
  simp at h'
  omega

theorem validB_complete {b : Bytes} (h : Valid b) : validB b = true := by
  induction h with
  | nil => rfl
  | ascii x r hx _ ih => unfold validB; simp [hx, ih]
  | two b0 b1 r h0 h1 _ ih => unfold validB; simp [not_ascii_lead2 h0, h0, h1, ih]
  | three b0 b1 b2 r h0 h2 _ ih =>
    have hl : lead2 b0 = false := by
      cases hl : lead2 b0 with
      | false => rfl
      | true => rw [lead2_not_ok3 hl] at h0; cases h0
    unfold validB; simp [(not_ascii_ok3 h0).1, hl, h0, h2, ih]
  | four b0 b1 b2 b3 r h0 h2 h3 _ ih =>
    have hb0 : 0xF0 ≤ b0.toNat := by
      simp only [ok4, Bool.or_eq_true, Bool.and_eq_true, decide_eq_true_eq] at h0
      rcases h0 with (⟨⟨h0, _⟩, _⟩ | ⟨⟨h0, _⟩, _⟩) | ⟨⟨h0, _⟩, _⟩
      · rw [h0]; decide
      · rw [UInt8.le_iff_toNat_le] at h0; simp at h0; omega
      · rw [h0]; decide
    have hl : lead2 b0 = false := by
      simp only [lead2, Bool.and_eq_false_iff, decide_eq_false_iff_not]
      right
      intro h'
      rw [UInt8.le_iff_toNat_le] at h'
      simp at h'; omega
    have h3' : ok3 b0 b1 = false := by
      have ne : ∀ (c : UInt8), c.toNat < 0xF0 → b0 ≠ c := fun c hc hbc => by rw [hbc] at hb0; omega
      simp only [ok3, Bool.or_eq_false_iff, Bool.and_eq_false_iff, decide_eq_false_iff_not]
      refine ⟨⟨Or.inl (Or.inl (ne 0xE0 (by decide))), Or.inl ⟨⟨Or.inr ?_, ne 0xEE (by decide)⟩, ne 0xEF (by decide)⟩⟩,
        Or.inl (Or.inl (ne 0xED (by decide)))⟩
      intro h'
      rw [UInt8.le_iff_toNat_le] at h'
      simp at h'; omega
    unfold validB; simp [(not_ascii_ok4 h0).1, hl, h3', h0, h2, h3, ih]

/-- the executable check decides the definition -/
theorem validB_iff (b : Bytes) : validB b = true ↔ Valid b :=
  ⟨validB_sound b.length b (Nat.le_refl _), validB_complete⟩

end TP.Utf8
