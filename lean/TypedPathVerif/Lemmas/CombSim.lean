/-
Lemmas/CombSim.lean — the `Parser` state machines of `Model/Comb` (byte slices, checked
indices, fuelled loops) simulate the token-level `PState` of `Model/Parser.lean` step by step,
and no step faults.
-/
import TypedPathVerif.Lemmas.CombPrefix
import TypedPathVerif.Lemmas.Laws

namespace TP.Comb

open TP

theorem frontT_WF {isSep : UInt8 → Bool} {k atBeg : Bool} {ts ts' : List Tok} {c : Comp}
    (h : frontT k atBeg ts = some (c, ts')) (hw : WFToks isSep ts) : WFToks isSep ts' := by
  obtain ⟨p, hp⟩ := frontT_suffix h
  rw [hp] at hw
  exact WFToks_suffix p hw

theorem backT_WF {isSep : UInt8 → Bool} {k atBeg : Bool} {ts ts' : List Tok} {c : Comp}
    (h : backT k atBeg ts = some (c, ts')) (hw : WFToks isSep ts) : WFToks isSep ts' := by
  obtain ⟨p, hp⟩ := backT_prefix h
  rw [hp] at hw
  exact WFToks_prefix _ hw

/-! ### Unix -/

namespace Unix

/-- the combinator state `c` and the token state `s` describe the same parser -/
structure Sim (c : St) (s : PState) : Prop where
  pre : s.pre = none
  atBeg : c.atBeg = s.atBeg
  k : s.k = false
  wf : WFToks usep s.toks
  input : c.input = untoks s.toks

theorem sim_new (b : Bytes) : Sim (St.new b) (Enc.new .unix b) :=
  ⟨rfl, rfl, rfl, WFToks_toks usep b, (untoks_toks usep b).symm⟩

theorem sim_remaining {c : St} {s : PState} (h : Sim c s) : c.remaining = s.remaining := by
  simp [St.remaining, PState.remaining, PState.preBytes, h.pre, h.input]

theorem sim_front {c : St} {s : PState} (h : Sim c s) :
    match s.nextFront with
    | some (x, s') => ∃ c', c.nextFront = .some x c' ∧ Sim c' s'
    | none => c.nextFront = .none := by
  unfold PState.nextFront St.nextFront
  rw [h.pre, h.input, h.atBeg, parseFront_toks s.atBeg h.wf, h.k]
  cases hf : frontT false s.atBeg s.toks with
  | none => simp
  | some p =>
    obtain ⟨x, ts'⟩ := p
    have hf' : frontT false s.atBeg s.toks = some (x, ts') := hf
    exact ⟨_, rfl, ⟨rfl, rfl, rfl, frontT_WF hf' h.wf, rfl⟩⟩

theorem sim_back {c : St} {s : PState} (h : Sim c s) :
    match s.nextBack with
    | some (x, s') => ∃ c', c.nextBack = .some x c' ∧ Sim c' s'
    | none => c.nextBack = .none := by
  unfold PState.nextBack St.nextBack
  rw [h.pre, h.input, h.atBeg, parseBack_toks s.atBeg h.wf, h.k]
  by_cases hne : s.toks = []
  · simp [hne, backT, skipBack, frontT]
  · simp only [ne_eq, hne, not_false_eq_true, if_true]
    cases hb : backT false s.atBeg s.toks with
    | none => simp
    | some p =>
      obtain ⟨x, ts'⟩ := p
      have hb' : backT false s.atBeg s.toks = some (x, ts') := hb
      exact ⟨_, rfl, ⟨rfl, rfl, rfl, backT_WF hb' h.wf, rfl⟩⟩

end Unix

/-! ### Windows -/

namespace Windows

structure Sim (c : St) (s : PState) : Prop where
  pre : c.pre = s.pre
  atBeg : c.atBeg = s.atBeg
  k : s.k = !c.normalize
  wf : WFToks (wsep c.normalize) s.toks
  input : c.input = s.preBytes ++ untoks s.toks

theorem sim_new (b : Bytes) : ∃ c, St.new b = .ok c ∧ Sim c (Enc.new .windows b) := by
  unfold St.new Enc.new
  simp only [maybe, prefixComponent_eq]
  cases hp : parsePrefixComp b with
  | none =>
    refine ⟨_, rfl, ⟨rfl, rfl, rfl, WFToks_toks _ b, ?_⟩⟩
    simp [PState.preBytes, untoks_toks]
  | some p =>
    obtain ⟨pc, rest⟩ := p
    refine ⟨_, rfl, ⟨rfl, rfl, rfl, WFToks_toks _ rest, ?_⟩⟩
    simp only [PState.preBytes, untoks_toks]
    exact (parsePrefixComp_raw hp).symm

theorem sim_remaining {c : St} {s : PState} (h : Sim c s) : c.remaining = s.remaining := by
  simp [St.remaining, PState.remaining, h.input]

theorem sim_front {c : St} {s : PState} (h : Sim c s) :
    match s.nextFront with
    | some (x, s') => ∃ c', c.nextFront = .some x c' ∧ Sim c' s'
    | none => c.nextFront = .none := by
  unfold PState.nextFront St.nextFront
  rw [h.pre]
  cases hp : s.pre with
  | some p =>
    have hin : c.input = p.raw ++ untoks s.toks := by rw [h.input]; simp [PState.preBytes, hp]
    have hsl : sliceFrom c.input p.raw.length = some (untoks s.toks) := by
      simp [sliceFrom, hin]
    simp only [hsl]
    exact ⟨_, rfl, ⟨rfl, h.atBeg, h.k, h.wf, by simp [PState.preBytes]⟩⟩
  | none =>
    have hin : c.input = untoks s.toks := by rw [h.input]; simp [PState.preBytes, hp]
    simp only [hin, h.atBeg, parseFront_toks s.atBeg c.normalize h.wf, h.k]
    cases hf : frontT (!c.normalize) s.atBeg s.toks with
    | none => simp
    | some q =>
      obtain ⟨x, ts'⟩ := q
      have hf' : frontT (!c.normalize) s.atBeg s.toks = some (x, ts') := hf
      exact ⟨_, rfl, ⟨rfl, rfl, rfl, frontT_WF hf' h.wf, by simp [PState.preBytes]⟩⟩

theorem sim_back {c : St} {s : PState} (h : Sim c s) :
    match s.nextBack with
    | some (x, s') => ∃ c', c.nextBack = .some x c' ∧ Sim c' s'
    | none => c.nextBack = .none := by
  unfold PState.nextBack St.nextBack
  have hpl : c.prefixLen = s.preBytes.length := by
    unfold St.prefixLen PState.preBytes; rw [h.pre]; cases s.pre <;> rfl
  have hsl : sliceFrom c.input c.prefixLen = some (untoks s.toks) := by
    simp [sliceFrom, hpl, h.input]
  simp only [hsl]
  by_cases hne : s.toks = []
  · simp only [hne, untoks, List.isEmpty_nil, Bool.not_true, Bool.false_eq_true, if_false, ne_eq,
      not_true_eq_false]
    rw [h.pre]
    cases hp : s.pre with
    | none => simp
    | some p =>
      have hin : c.input = p.raw := by rw [h.input]; simp [PState.preBytes, hp, hne, untoks]
      have hpl' : c.prefixLen = p.raw.length := by rw [hpl]; simp [PState.preBytes, hp]
      simp only [hpl', hin, sliceFrom, Nat.le_refl, if_true, List.drop_length]
      exact ⟨_, rfl, ⟨rfl, h.atBeg, h.k, by simp [WFToks], by simp [PState.preBytes, untoks]⟩⟩
  · have hnb : untoks s.toks ≠ [] := fun h' => hne (Unix.untoks_eq_nil h.wf h')
    have hie : (untoks s.toks).isEmpty = false := by
      cases hu : untoks s.toks with
      | nil => exact absurd hu hnb
      | cons _ _ => rfl
    simp only [hie, Bool.not_false, if_true, ne_eq, hne, not_false_eq_true, h.atBeg,
      parseBack_toks s.atBeg c.normalize h.wf, h.k]
    cases hb : backT (!c.normalize) s.atBeg s.toks with
    | none => simp
    | some q =>
      obtain ⟨x, ts'⟩ := q
      have hb' : backT (!c.normalize) s.atBeg s.toks = some (x, ts') := hb
      obtain ⟨j, hj⟩ := backT_prefix hb'
      have hst : sliceTo c.input ((untoks ts').length + c.prefixLen) = some (s.preBytes ++ untoks ts') := by
        have hlen : (untoks ts').length + s.preBytes.length ≤ c.input.length := by
          rw [h.input, hj, Comb.untoks_append]; simp; omega
        simp only [sliceTo, hpl, hlen, if_true, Option.some.injEq]
        rw [h.input, hj, Comb.untoks_append, ← List.append_assoc]
        have : (untoks ts').length + s.preBytes.length = (s.preBytes ++ untoks ts').length := by
          simp; omega
        rw [this, List.take_left]
      simp only [hst]
      exact ⟨_, rfl, ⟨h.pre, rfl, rfl, backT_WF hb' h.wf, rfl⟩⟩

end Windows

end TP.Comb
