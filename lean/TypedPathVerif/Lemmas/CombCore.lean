/-
Lemmas/CombCore.lean — closed forms of the byte-level combinators (`Model/Comb/Core.lean`):
every checked slice is in range, so none of the primitives faults, and each equals a plain
`takeWhile` / `dropWhile` / `isPrefixOf` expression.
-/
import TypedPathVerif.Model.Comb.Unix

namespace TP.Comb

theorem findIdx?_span {α : Type} (p : α → Bool) (l : List α) :
    l.findIdx? p =
      if l.dropWhile (fun x => !p x) = [] then none else some (l.takeWhile (fun x => !p x)).length := by
  induction l with
  | nil => simp
  | cons x xs ih =>
    rw [List.findIdx?_cons]
    by_cases hx : p x = true
    · simp [hx]
    · have hx' : p x = false := by simpa using hx
      simp only [hx', Bool.false_eq_true, if_false, List.dropWhile_cons, Bool.not_false, if_true,
        List.takeWhile_cons, List.length_cons, ih]
      split <;> simp

theorem takeWhile_length_le {α : Type} (p : α → Bool) (l : List α) : (l.takeWhile p).length ≤ l.length := by
  have := congrArg List.length (List.takeWhile_append_dropWhile (p := p) (l := l))
  simp only [List.length_append] at this
  omega

theorem drop_takeWhile_length {α : Type} (p : α → Bool) (l : List α) :
    l.drop (l.takeWhile p).length = l.dropWhile p := by
  have h := List.takeWhile_append_dropWhile (p := p) (l := l)
  generalize l.takeWhile p = a at h
  generalize l.dropWhile p = b at h
  subst h; simp

theorem take_takeWhile_length {α : Type} (p : α → Bool) (l : List α) :
    l.take (l.takeWhile p).length = l.takeWhile p := by
  have h := List.takeWhile_append_dropWhile (p := p) (l := l)
  generalize l.takeWhile p = a at h
  generalize l.dropWhile p = b at h
  subst h; simp

/-- `take_until_byte` never faults: it is `span (!pred)` -/
theorem takeUntilByte_eq (pred : UInt8 → Bool) (i : Bytes) :
    takeUntilByte pred i = .ok (i.dropWhile (fun x => !pred x)) (i.takeWhile (fun x => !pred x)) := by
  unfold takeUntilByte
  rw [findIdx?_span]
  by_cases hd : i.dropWhile (fun x => !pred x) = []
  · simp only [hd, if_true]
    have := List.takeWhile_append_dropWhile (p := fun x => !pred x) (l := i)
    rw [hd, List.append_nil] at this
    rw [this]
  · simp only [hd, if_false]
    cases hn : (i.takeWhile (fun x => !pred x)).length with
    | zero =>
      have ht : i.takeWhile (fun x => !pred x) = [] := List.length_eq_zero_iff.mp hn
      have := List.takeWhile_append_dropWhile (p := fun x => !pred x) (l := i)
      rw [ht, List.nil_append] at this
      simp only [ht, this]
    | succ n =>
      have hle := takeWhile_length_le (fun x => !pred x) i
      simp only [sliceFrom, sliceTo]
      rw [← hn]
      simp only [hle, if_true, drop_takeWhile_length, take_takeWhile_length]

theorem takeUntilByte1_eq (pred : UInt8 → Bool) (i : Bytes) :
    takeUntilByte1 pred i =
      if i.takeWhile (fun x => !pred x) = [] then .err
      else .ok (i.dropWhile (fun x => !pred x)) (i.takeWhile (fun x => !pred x)) := by
  unfold takeUntilByte1
  rw [takeUntilByte_eq]
  simp only [Res.bind, List.isEmpty_iff]

theorem rfindIdx?_span (pred : UInt8 → Bool) (i : Bytes) :
    rfindIdx? pred i =
      if i.reverse.dropWhile (fun x => !pred x) = [] then none
      else some (i.length - 1 - (i.reverse.takeWhile (fun x => !pred x)).length) := by
  unfold rfindIdx?
  rw [findIdx?_span]
  by_cases h : i.reverse.dropWhile (fun x => !pred x) = [] <;> simp [h]

/-- `rtake_until_byte` never faults: it is `span (!pred)` from the back -/
theorem rtakeUntilByte_eq (pred : UInt8 → Bool) (i : Bytes) :
    rtakeUntilByte pred i =
      .ok (i.reverse.dropWhile (fun x => !pred x)).reverse (i.reverse.takeWhile (fun x => !pred x)).reverse := by
  unfold rtakeUntilByte
  rw [rfindIdx?_span]
  have hsplit := List.takeWhile_append_dropWhile (p := fun x => !pred x) (l := i.reverse)
  have hlen : (i.reverse.takeWhile (fun x => !pred x)).length + (i.reverse.dropWhile (fun x => !pred x)).length = i.length := by
    have := congrArg List.length hsplit
    rw [List.length_append, List.length_reverse] at this
    exact this
  by_cases hd : i.reverse.dropWhile (fun x => !pred x) = []
  · simp only [hd, if_true, List.reverse_nil]
    rw [hd, List.append_nil] at hsplit
    rw [hsplit, List.reverse_reverse]
  · simp only [hd, if_false]
    have hdl : 0 < (i.reverse.dropWhile (fun x => !pred x)).length := List.length_pos_iff.mpr hd
    have hpos : 1 ≤ i.length := by omega
    simp only [checkedSub, hpos, if_true]
    generalize hj : (i.reverse.takeWhile (fun x => !pred x)).length = j at *
    by_cases hj0 : j = 0
    · subst hj0
      have ht : i.reverse.takeWhile (fun x => !pred x) = [] := List.length_eq_zero_iff.mp hj
      rw [ht, List.nil_append] at hsplit
      simp only [Nat.sub_zero, if_true, ht, hsplit, List.reverse_reverse, List.reverse_nil]
    · have hne : i.length - 1 - j ≠ i.length - 1 := by omega
      simp only [hne, if_false, sliceTo, sliceFrom]
      have hle : i.length - 1 - j + 1 ≤ i.length := by omega
      simp only [hle, if_true]
      have e1 : i.length - 1 - j + 1 = i.length - j := by omega
      rw [e1]
      have h1 : i.take (i.length - j) = (i.reverse.dropWhile (fun x => !pred x)).reverse := by
        have := List.drop_reverse (xs := i) (i := j)
        rw [← hj, drop_takeWhile_length] at this
        rw [this, List.reverse_reverse, hj]
      have h2 : i.drop (i.length - j) = (i.reverse.takeWhile (fun x => !pred x)).reverse := by
        have := List.take_reverse (xs := i) (i := j)
        rw [← hj, take_takeWhile_length] at this
        rw [this, List.reverse_reverse, hj]
      rw [h1, h2]

theorem rtakeUntilByte1_eq (pred : UInt8 → Bool) (i : Bytes) :
    rtakeUntilByte1 pred i =
      if i.reverse.takeWhile (fun x => !pred x) = [] then .err
      else .ok (i.reverse.dropWhile (fun x => !pred x)).reverse (i.reverse.takeWhile (fun x => !pred x)).reverse := by
  unfold rtakeUntilByte1
  rw [rtakeUntilByte_eq]
  simp only [Res.bind, List.isEmpty_iff, List.reverse_eq_nil_iff]

/-- `byte(b)` never faults -/
theorem byte_eq (b : UInt8) (i : Bytes) :
    byte b i = match i with
      | x :: r => if x = b then .ok r b else .err
      | [] => .err := by
  unfold byte
  cases i with
  | nil => simp
  | cons x r =>
    by_cases hx : x = b
    · subst hx
      simp [List.isPrefixOf, sliceFrom]
    · have : (b == x) = false := by simpa using fun h => hx h.symm
      simp [List.isPrefixOf, hx, this]

/-- `bytes(pat)` never faults -/
theorem bytes_eq (pat i : Bytes) :
    bytes pat i = if i ≠ [] ∧ pat.isPrefixOf i = true then .ok (i.drop pat.length) pat else .err := by
  unfold bytes
  by_cases hi : i = []
  · simp [hi]
  · simp only [List.isEmpty_iff, hi, if_false, ne_eq, not_false_eq_true, true_and]
    by_cases hp : pat.isPrefixOf i = true
    · have hpre : pat <+: i := List.isPrefixOf_iff_prefix.mp hp
      have hlen : pat.length ≤ i.length := hpre.length_le
      have : ¬ i.length < pat.length := by omega
      simp only [this, if_false, hp, if_true, sliceFrom, sliceTo, hlen]
      rw [← List.prefix_iff_eq_take.mp hpre]
    · simp only [hp, Bool.false_eq_true, if_false]
      split <;> rfl

/-- `take(cnt)` never faults -/
theorem take_eq (cnt : Nat) (i : Bytes) :
    take cnt i = if cnt = 0 ∨ cnt > i.length then .err else .ok (i.drop cnt) (i.take cnt) := by
  unfold take
  by_cases h0 : cnt = 0
  · simp [h0]
  · by_cases h1 : cnt > i.length
    · simp [h0, h1]
    · have : cnt ≤ i.length := by omega
      simp [h0, h1, sliceFrom, sliceTo, this]

end TP.Comb
