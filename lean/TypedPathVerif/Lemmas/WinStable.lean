/-
Lemmas/WinStable.lean — Windows paths WITH a prefix: when is the prefix parse stable under
replacing what follows the prefix, and law (R) (re-parsing the remainder of back steps) and the
append law (A) for such paths.

`Stable p`: the prefix component `p` is parsed again, with the same raw text and payload, from
`p.raw ++ rest` for every `rest` the kind tolerates (`RestOK`: anything after a disk / verbatim
disk prefix; nothing or a separator after the others).  It is proved here for every prefix the
parser can return of kind disk, verbatim disk, device namespace, and for the "complete" prefixes
of the remaining kinds (UNC / verbatim UNC with a non-empty share, verbatim with a name other
than `UNC`).  The incomplete ones really are unstable: `\\server` + `\x` is `\\server\x` =
UNC(server, x); `\\?\` alone re-parses as UNC("?", ""); `\\?\UNC` + `\s` is a verbatim UNC.
-/
import TypedPathVerif.Props.C02b
import TypedPathVerif.Props.C16

namespace TP.Win

open TP

/-- `normalize` flag of a path whose bytes start with `raw` -/
def normOf (raw : Bytes) : Bool := !startsWith raw VERB

/-- "nothing, or a byte satisfying `f`, comes next" -/
def HeadOK (f : UInt8 → Bool) : Bytes → Prop
  | [] => True
  | x :: _ => f x = true

theorem headOK_match (f : UInt8 → Bool) (r : Bytes) :
    HeadOK f r ↔ (match r with | x :: _ => f x = true | [] => True) := by
  cases r <;> exact Iff.rfl

/-- what may follow the raw prefix text without changing how the prefix parses -/
def RestOK (p : PrefixComp) (rest : Bytes) : Prop :=
  match p.kind with
  | .disk _ => True
  | .verbatimDisk _ => True
  | _ => HeadOK (wsep (normOf p.raw)) rest

/-- the prefix parse does not depend on what (tolerated) bytes follow the prefix -/
def Stable (p : PrefixComp) : Prop :=
  ∀ rest, RestOK p rest →
    parsePrefixComp (p.raw ++ rest) = some (p, rest) ∧
    startsWith (p.raw ++ rest) VERB = startsWith p.raw VERB

theorem parsePrefixComp_of {raw rest : Bytes} {k : WPrefix}
    (h : parsePrefix (raw ++ rest) = some (k, rest)) :
    parsePrefixComp (raw ++ rest) = some (⟨raw, k⟩, rest) := by
  unfold parsePrefixComp
  rw [h]
  simp

theorem parsePrefix_of_comp {b rest : Bytes} {p : PrefixComp}
    (h : parsePrefixComp b = some (p, rest)) : parsePrefix b = some (p.kind, rest) := by
  unfold parsePrefixComp at h
  cases hp : parsePrefix b with
  | none => simp [hp] at h
  | some x =>
    obtain ⟨k, r⟩ := x
    simp only [hp, Option.some.injEq, Prod.mk.injEq] at h
    rw [← h.1, ← h.2]

theorem startsWith_append_long (raw rest : Bytes) (h : 4 ≤ raw.length) :
    startsWith (raw ++ rest) VERB = startsWith raw VERB := by
  match raw, h with
  | a :: b :: c :: d :: t, _ => simp [startsWith, VERB, List.isPrefixOf]

/-! ### disk -/

theorem stable_disk {b rest : Bytes} {p : PrefixComp} {D : UInt8}
    (h : parsePrefixComp b = some (p, rest)) (hk : p.kind = .disk D) : Stable p := by
  have hraw := parsePrefixComp_raw h
  have hp := parsePrefix_of_comp h
  rw [hk] at hp
  obtain ⟨d, hb, hd, hD⟩ := (C02b.disk_iff b rest D).mp hp
  have hr : p.raw = [d, COLON] := by
    rw [hb] at hraw
    have : p.raw ++ rest = [d, COLON] ++ rest := by simpa using hraw
    exact List.append_cancel_right this
  intro rest' _
  constructor
  · have := (C02b.disk_iff (d :: COLON :: rest') rest' D).mpr ⟨d, rfl, hd, hD⟩
    have h2 := parsePrefixComp_of (raw := [d, COLON]) (rest := rest') (k := .disk D) (by simpa using this)
    rw [hr]
    have : (⟨[d, COLON], .disk D⟩ : PrefixComp) = p := by
      cases p; simp only at hr hk; subst hr; subst hk; rfl
    rw [← this]; exact h2
  · rw [hr]
    have hne : d ≠ BSLASH := by
      intro hE; subst hE; revert hd; decide
    have hne' : BSLASH ≠ d := fun hE => hne hE.symm
    simp [startsWith, VERB, List.isPrefixOf, hne']

/-! ### verbatim disk -/

theorem stable_verbatimDisk {b rest : Bytes} {p : PrefixComp} {D : UInt8}
    (h : parsePrefixComp b = some (p, rest)) (hk : p.kind = .verbatimDisk D) : Stable p := by
  have hraw := parsePrefixComp_raw h
  have hp := parsePrefix_of_comp h
  rw [hk] at hp
  obtain ⟨s1, s2, s3, d, hb, h1, h2, h3, hd, hD⟩ := (C02b.verbatim_disk_iff b rest D).mp hp
  have hr : p.raw = [s1, s2, QMARK, s3, d, COLON] := by
    rw [hb] at hraw
    have : p.raw ++ rest = [s1, s2, QMARK, s3, d, COLON] ++ rest := by simpa using hraw
    exact List.append_cancel_right this
  intro rest' _
  constructor
  · have := (C02b.verbatim_disk_iff (s1 :: s2 :: QMARK :: s3 :: d :: COLON :: rest') rest' D).mpr
      ⟨s1, s2, s3, d, rfl, h1, h2, h3, hd, hD⟩
    have h2' := parsePrefixComp_of (raw := [s1, s2, QMARK, s3, d, COLON]) (rest := rest') (k := .verbatimDisk D)
      (by simpa using this)
    rw [hr]
    have : (⟨[s1, s2, QMARK, s3, d, COLON], .verbatimDisk D⟩ : PrefixComp) = p := by
      cases p; simp only at hr hk; subst hr; subst hk; rfl
    rw [← this]; exact h2'
  · rw [hr]; exact startsWith_append_long _ _ (by simp)

/-! ### device namespace -/

theorem stable_deviceNS {b rest : Bytes} {p : PrefixComp} {dev : Bytes}
    (h : parsePrefixComp b = some (p, rest)) (hk : p.kind = .deviceNS dev) : Stable p := by
  have hraw := parsePrefixComp_raw h
  have hp := parsePrefix_of_comp h
  rw [hk] at hp
  obtain ⟨s1, s2, s3, hb, h1, h2, h3, hne, hdev, _⟩ := (C02b.device_ns_iff b rest dev).mp hp
  have hr : p.raw = s1 :: s2 :: DOT :: s3 :: dev := by
    rw [hb] at hraw
    have : p.raw ++ rest = (s1 :: s2 :: DOT :: s3 :: dev) ++ rest := by simpa using hraw
    exact List.append_cancel_right this
  have hnv : startsWith p.raw VERB = false := by
    rw [hr]; simp [startsWith, VERB, List.isPrefixOf, DOT, QMARK]
  intro rest' hok
  have hok' : match (generalizing := false) rest' with | x :: _ => anySep x = true | [] => True := by
    cases rest' with
    | nil => trivial
    | cons x r =>
      unfold RestOK at hok
      rw [hk] at hok
      have h' : HeadOK (wsep true) (x :: r) := by simpa only [normOf, hnv, Bool.not_false] using hok
      exact h'
  constructor
  · have := (C02b.device_ns_iff (s1 :: s2 :: DOT :: s3 :: (dev ++ rest')) rest' dev).mpr
      ⟨s1, s2, s3, rfl, h1, h2, h3, hne, hdev, hok'⟩
    have h2' := parsePrefixComp_of (raw := s1 :: s2 :: DOT :: s3 :: dev) (rest := rest') (k := .deviceNS dev)
      (by simpa using this)
    rw [hr]
    have : (⟨s1 :: s2 :: DOT :: s3 :: dev, .deviceNS dev⟩ : PrefixComp) = p := by
      cases p; simp only at hr hk; subst hr; subst hk; rfl
    rw [← this]; exact h2'
  · rw [hr]; exact startsWith_append_long _ _ (by simp)

end TP.Win

namespace TP.Win

open TP

theorem takeNormal_some {norm : Bool} {b n r : Bytes} (h : takeNormal norm b = some (n, r)) :
    b = n ++ r ∧ n ≠ [] ∧ (∀ y ∈ n, wsep norm y = false) ∧ HeadOK (wsep norm) r := by
  obtain ⟨h1, h2, h3, h4⟩ := (C02b.takeNormal_iff norm b n r).mp h
  exact ⟨h1, h2, h3, (headOK_match _ _).mpr h4⟩

theorem takeNormal_mk (norm : Bool) (n r : Bytes) (h2 : n ≠ []) (h3 : ∀ y ∈ n, wsep norm y = false)
    (h4 : HeadOK (wsep norm) r) : takeNormal norm (n ++ r) = some (n, r) :=
  (C02b.takeNormal_iff norm (n ++ r) n r).mpr ⟨rfl, h2, h3, (headOK_match _ _).mp h4⟩

/-- `takeNormal` succeeds on anything that starts with a non-separator -/
theorem takeNormal_isSome_of_head {norm : Bool} {y : UInt8} (t : Bytes) (h : wsep norm y = false) :
    (takeNormal norm (y :: t)).isSome = true := by
  unfold takeNormal
  simp [h]

theorem wsep_imp_anySep {norm : Bool} {y : UInt8} (h : wsep norm y = true) : anySep y = true := by
  cases norm
  · simp only [wsep, Bool.false_and, Bool.or_false, decide_eq_true_eq] at h
    subst h; decide
  · exact h

theorem not_wsep_of_not_anySep {norm : Bool} {y : UInt8} (h : anySep y = false) : wsep norm y = false := by
  cases hw : wsep norm y with
  | false => rfl
  | true => rw [wsep_imp_anySep hw] at h; cases h

/-- which alternative of `prefix` produced the result -/
theorem parsePrefix_alts {b r : Bytes} {k : WPrefix} (h : parsePrefix b = some (k, r)) :
    (k.tag = 1 ∧ prefixVerbatimUNC b = some (k, r)) ∨
    (k.tag = 2 ∧ prefixVerbatimUNC b = none ∧ prefixVerbatimDisk b = some (k, r)) ∨
    (k.tag = 0 ∧ prefixVerbatimUNC b = none ∧ prefixVerbatimDisk b = none ∧ prefixVerbatim b = some (k, r)) ∨
    (k.tag = 3 ∧ prefixVerbatimUNC b = none ∧ prefixVerbatimDisk b = none ∧ prefixVerbatim b = none ∧
      prefixDeviceNS b = some (k, r)) ∨
    (k.tag = 4 ∧ prefixVerbatimUNC b = none ∧ prefixVerbatimDisk b = none ∧ prefixVerbatim b = none ∧
      prefixDeviceNS b = none ∧ prefixUNC b = some (k, r)) ∨
    (k.tag = 5 ∧ prefixVerbatimUNC b = none ∧ prefixVerbatimDisk b = none ∧ prefixVerbatim b = none ∧
      prefixDeviceNS b = none ∧ prefixUNC b = none ∧ prefixDisk b = some (k, r)) := by
  unfold parsePrefix at h
  cases h1 : prefixVerbatimUNC b with
  | some x =>
    simp only [h1, Option.orElse_some, Option.some.injEq] at h; subst h
    exact Or.inl ⟨C02.kind_verbatimUNC h1, rfl⟩
  | none =>
    simp only [h1, Option.orElse_none] at h
    cases h2 : prefixVerbatimDisk b with
    | some x =>
      simp only [h2, Option.orElse_some, Option.some.injEq] at h; subst h
      obtain ⟨d', _, _, hk', _⟩ := C02.kind_verbatimDisk h2
      exact Or.inr (Or.inl ⟨by rw [hk']; rfl, rfl, rfl⟩)
    | none =>
      simp only [h2, Option.orElse_none] at h
      cases h3 : prefixVerbatim b with
      | some x =>
        simp only [h3, Option.orElse_some, Option.some.injEq] at h; subst h
        exact Or.inr (Or.inr (Or.inl ⟨C02.kind_verbatim h3, rfl, rfl, rfl⟩))
      | none =>
        simp only [h3, Option.orElse_none] at h
        cases h4 : prefixDeviceNS b with
        | some x =>
          simp only [h4, Option.orElse_some, Option.some.injEq] at h; subst h
          exact Or.inr (Or.inr (Or.inr (Or.inl ⟨C02.kind_deviceNS h4, rfl, rfl, rfl, rfl⟩)))
        | none =>
          simp only [h4, Option.orElse_none] at h
          cases h5 : prefixUNC b with
          | some x =>
            simp only [h5, Option.orElse_some, Option.some.injEq] at h; subst h
            exact Or.inr (Or.inr (Or.inr (Or.inr (Or.inl ⟨C02.kind_unc h5, rfl, rfl, rfl, rfl, rfl⟩))))
          | none =>
            simp only [h5, Option.orElse_none] at h
            obtain ⟨d', _, hk', _⟩ := C02.kind_disk h
            exact Or.inr (Or.inr (Or.inr (Or.inr (Or.inr ⟨by rw [hk']; rfl, rfl, rfl, rfl, rfl, rfl, h⟩))))

end TP.Win

namespace TP.Win

open TP

/-! ### UNC with a share ("complete") -/

theorem verbatimHdr_eq (s1 s2 q c : UInt8) (r : Bytes) :
    verbatimHdr (s1 :: s2 :: q :: c :: r) =
      if anySep s1 && anySep s2 && q = QMARK && anySep c then some r else none := rfl

/-- the header test on `sep sep field …`: fails unless the field is exactly `?` followed by a separator -/
theorem verbatimHdr_field_none (s1 s2 x : UInt8) (sv tail : Bytes) (hne : sv ≠ [])
    (hfree : ∀ y ∈ sv, anySep y = false) (hq : sv ≠ [QMARK]) :
    verbatimHdr (s1 :: s2 :: (sv ++ x :: tail)) = none := by
  match sv, hne with
  | [q], _ =>
    have : q ≠ QMARK := fun h => hq (by rw [h])
    simp [verbatimHdr_eq, this]
  | q :: c :: t, _ =>
    have : anySep c = false := hfree c (by simp)
    simp [verbatimHdr_eq, this]

theorem prefixDeviceNS_field_none (s1 s2 x : UInt8) (sv tail : Bytes) (hne : sv ≠ [])
    (hfree : ∀ y ∈ sv, anySep y = false) (hq : sv ≠ [DOT]) :
    prefixDeviceNS (s1 :: s2 :: (sv ++ x :: tail)) = none := by
  match sv, hne with
  | [q], _ =>
    have : q ≠ DOT := fun h => hq (by rw [h])
    simp [prefixDeviceNS, this]
  | q :: c :: t, _ =>
    have : anySep c = false := hfree c (by simp)
    simp [prefixDeviceNS, this]

/-- A UNC prefix with a non-empty share is produced exactly for `sep sep server sep share`, where
server and share are non-empty and separator-free, the server is neither `?` nor `.`, and the
share is followed by the end or a separator of either kind. -/
theorem unc_complete_iff (b rest sv sh : Bytes) (hsh : sh ≠ []) :
    parsePrefix b = some (.unc sv sh, rest) ↔
      ∃ s1 s2 x, b = s1 :: s2 :: (sv ++ x :: (sh ++ rest)) ∧
        anySep s1 = true ∧ anySep s2 = true ∧ anySep x = true ∧
        sv ≠ [] ∧ (∀ y ∈ sv, anySep y = false) ∧ sv ≠ [QMARK] ∧ sv ≠ [DOT] ∧
        (∀ y ∈ sh, anySep y = false) ∧ HeadOK anySep rest := by
  constructor
  · intro h
    rcases parsePrefix_alts h with ⟨ht, _⟩ | ⟨ht, _⟩ | ⟨ht, _⟩ | ⟨ht, _⟩ | ⟨_, h1, h2, h3, h4, h5⟩ | ⟨ht, _⟩
    all_goals try (simp [WPrefix.tag] at ht)
    -- shape of the input from the UNC alternative
    match b, h5 with
    | s1 :: s2 :: r0, h5 =>
      simp only [prefixUNC] at h5
      split at h5
      · rename_i hss
        simp only [Bool.and_eq_true] at hss
        cases hs : serverShare true r0 with
        | none => simp [hs] at h5
        | some t =>
          obtain ⟨sv', sh', r'⟩ := t
          simp only [hs, Option.some.injEq, Prod.mk.injEq, WPrefix.unc.injEq] at h5
          obtain ⟨⟨e1, e2⟩, e3⟩ := h5
          subst e1; subst e2; subst e3
          unfold serverShare at hs
          cases ht1 : takeNormal true r0 with
          | none => simp [ht1] at hs
          | some u =>
            obtain ⟨svv, r1⟩ := u
            simp only [ht1] at hs
            cases ht2 : takeNormal true (maybeSep true r1) with
            | none =>
              simp only [ht2, Option.some.injEq, Prod.mk.injEq] at hs
              exact absurd hs.2.1.symm hsh
            | some w =>
              obtain ⟨shh, r2⟩ := w
              simp only [ht2, Option.some.injEq, Prod.mk.injEq] at hs
              obtain ⟨e1, e2, e3⟩ := hs
              subst e1; subst e2; subst e3
              obtain ⟨hr0, hsvne, hsvfree, hr1⟩ := takeNormal_some ht1
              obtain ⟨hm, _, hshfree, hrest⟩ := takeNormal_some ht2
              -- the separator between server and share
              cases r1 with
              | nil =>
                simp [maybeSep, takeSep, takeNormal] at ht2
              | cons x t =>
                have hx : anySep x = true := hr1
                have hms : maybeSep true (x :: t) = t := by
                  simp only [maybeSep, takeSep]
                  have : wsep true x = true := hx
                  simp [this]
                rw [hms] at hm
                subst hm
                subst hr0
                have hq : svv ≠ [QMARK] := by
                  intro hE
                  subst hE
                  -- then the verbatim alternatives would have matched
                  have hv : verbatimHdr (s1 :: s2 :: ([QMARK] ++ x :: (shh ++ r2))) = some (shh ++ r2) := by
                    simp [verbatimHdr_eq, hss.1, hss.2, hx]
                  have := C02b.prefixVerbatim_guards_redundant _ h1 h2
                  rw [h3, hv] at this
                  simp only at this
                  cases shh with
                  | nil => exact hsh rfl
                  | cons y t' =>
                    have hy : anySep y = false := hshfree y (by simp)
                    have hs' := takeNormal_isSome_of_head (norm := !startsWith (s1 :: s2 :: ([QMARK] ++ x :: (y :: t' ++ r2))) VERB)
                      (t' ++ r2) (not_wsep_of_not_anySep hy)
                    cases htn : takeNormal (!startsWith (s1 :: s2 :: ([QMARK] ++ x :: (y :: t' ++ r2))) VERB) (y :: t' ++ r2) with
                    | none =>
                      have : takeNormal (!startsWith (s1 :: s2 :: ([QMARK] ++ x :: (y :: t' ++ r2))) VERB) (y :: (t' ++ r2)) = none := by
                        simpa using htn
                      rw [this] at hs'; cases hs'
                    | some z => rw [htn] at this; cases this
                have hd : svv ≠ [DOT] := by
                  intro hE
                  subst hE
                  cases shh with
                  | nil => exact hsh rfl
                  | cons y t' =>
                    have hy : anySep y = false := hshfree y (by simp)
                    have hs' := takeNormal_isSome_of_head (norm := true) (t' ++ r2) hy
                    cases htn : takeNormal true (y :: (t' ++ r2)) with
                    | none => rw [htn] at hs'; cases hs'
                    | some z =>
                      have : prefixDeviceNS (s1 :: s2 :: ([DOT] ++ x :: (y :: t' ++ r2))) = some (.deviceNS z.1, z.2) := by
                        simp [prefixDeviceNS, hss.1, hss.2, hx, htn]
                      rw [h4] at this; cases this
                exact ⟨s1, s2, x, rfl, hss.1, hss.2, hx, hsvne, hsvfree, hq, hd, hshfree, hrest⟩
      · cases h5
  · intro ⟨s1, s2, x, hb, h1, h2, hx, hsvne, hsvfree, hq, hd, hshfree, hrest⟩
    subst hb
    have hv := verbatimHdr_field_none s1 s2 x sv (sh ++ rest) hsvne hsvfree hq
    have a1 : prefixVerbatimUNC (s1 :: s2 :: (sv ++ x :: (sh ++ rest))) = none := by
      unfold prefixVerbatimUNC; simp only [hv]
    have a2 : prefixVerbatimDisk (s1 :: s2 :: (sv ++ x :: (sh ++ rest))) = none := by
      unfold prefixVerbatimDisk; simp only [hv]
    have a3 : prefixVerbatim (s1 :: s2 :: (sv ++ x :: (sh ++ rest))) = none := by
      rw [C02b.prefixVerbatim_guards_redundant _ a1 a2, hv]
    have a4 := prefixDeviceNS_field_none s1 s2 x sv (sh ++ rest) hsvne hsvfree hd
    have t1 : takeNormal true (sv ++ x :: (sh ++ rest)) = some (sv, x :: (sh ++ rest)) :=
      takeNormal_mk true sv _ hsvne hsvfree hx
    have t2 : takeNormal true (sh ++ rest) = some (sh, rest) := takeNormal_mk true sh rest hsh hshfree hrest
    have hms : maybeSep true (x :: (sh ++ rest)) = sh ++ rest := by
      have : wsep true x = true := hx
      simp [maybeSep, takeSep, this]
    have a5 : prefixUNC (s1 :: s2 :: (sv ++ x :: (sh ++ rest))) = some (.unc sv sh, rest) := by
      simp only [prefixUNC, h1, h2, Bool.and_self, if_true, serverShare, t1, hms, t2]
    unfold parsePrefix
    simp [a1, a2, a3, a4, a5]

theorem stable_unc {b rest : Bytes} {p : PrefixComp} {sv sh : Bytes}
    (h : parsePrefixComp b = some (p, rest)) (hk : p.kind = .unc sv sh) (hsh : sh ≠ []) : Stable p := by
  have hraw := parsePrefixComp_raw h
  have hp := parsePrefix_of_comp h
  rw [hk] at hp
  obtain ⟨s1, s2, x, hb, h1, h2, hx, hsvne, hsvfree, hq, hd, hshfree, _⟩ := (unc_complete_iff b rest sv sh hsh).mp hp
  have hr : p.raw = s1 :: s2 :: (sv ++ x :: sh) := by
    rw [hb] at hraw
    have : p.raw ++ rest = (s1 :: s2 :: (sv ++ x :: sh)) ++ rest := by simpa using hraw
    exact List.append_cancel_right this
  have hnv : startsWith p.raw VERB = false := by
    rw [hr]
    match sv, hsvne with
    | [q], _ =>
      have : q ≠ QMARK := fun h => hq (by rw [h])
      have : QMARK ≠ q := fun h => this h.symm
      simp [startsWith, VERB, List.isPrefixOf, this]
    | q :: c :: t, _ =>
      have hc : anySep c = false := hsvfree c (by simp)
      have : BSLASH ≠ c := by intro hE; rw [← hE] at hc; revert hc; decide
      simp [startsWith, VERB, List.isPrefixOf, this]
  intro rest' hok
  have hok' : HeadOK anySep rest' := by
    cases rest' with
    | nil => trivial
    | cons y r =>
      unfold RestOK at hok
      rw [hk] at hok
      have h' : HeadOK (wsep true) (y :: r) := by simpa only [normOf, hnv, Bool.not_false] using hok
      exact h'
  constructor
  · have := (unc_complete_iff (s1 :: s2 :: (sv ++ x :: (sh ++ rest'))) rest' sv sh hsh).mpr
      ⟨s1, s2, x, rfl, h1, h2, hx, hsvne, hsvfree, hq, hd, hshfree, hok'⟩
    have h2' := parsePrefixComp_of (raw := s1 :: s2 :: (sv ++ x :: sh)) (rest := rest') (k := .unc sv sh)
      (by simpa using this)
    rw [hr]
    have : (⟨s1 :: s2 :: (sv ++ x :: sh), .unc sv sh⟩ : PrefixComp) = p := by
      cases p; simp only at hr hk; subst hr; subst hk; rfl
    rw [← this]; exact h2'
  · rw [hr]
    have hlen : 4 ≤ (s1 :: s2 :: (sv ++ x :: sh)).length := by
      cases sv with
      | nil => exact absurd rfl hsvne
      | cons q t => simp; omega
    exact startsWith_append_long _ _ hlen

end TP.Win

namespace TP.Win

open TP

/-! ### verbatim UNC with a share ("complete") -/

theorem startsWith_hdr (s1 s2 q s3 : UInt8) (t : Bytes) :
    startsWith (s1 :: s2 :: q :: s3 :: t) VERB = startsWith [s1, s2, q, s3] VERB := by
  simp [startsWith, VERB, List.isPrefixOf]

theorem verbatimHdr_some {b r : Bytes} (h : verbatimHdr b = some r) :
    ∃ s1 s2 s3, b = s1 :: s2 :: QMARK :: s3 :: r ∧ anySep s1 = true ∧ anySep s2 = true ∧ anySep s3 = true := by
  match b, h with
  | s1 :: s2 :: q :: s3 :: r', h =>
    rw [verbatimHdr_eq] at h
    split at h
    · rename_i hh
      simp only [Bool.and_eq_true, decide_eq_true_eq] at hh
      obtain ⟨⟨⟨hs1, hs2⟩, hq⟩, hs3⟩ := hh
      simp only [Option.some.injEq] at h
      subst h; subst hq
      exact ⟨s1, s2, s3, rfl, hs1, hs2, hs3⟩
    · cases h

theorem takeUNC_some {b r : Bytes} (h : takeUNC b = some r) : b = 85 :: 78 :: 67 :: r := by
  unfold takeUNC at h
  split at h
  · simp only [Option.some.injEq] at h; subst h; rfl
  · cases h

theorem takeSep_some {norm : Bool} {b r : Bytes} (h : takeSep norm b = some r) :
    ∃ x, b = x :: r ∧ wsep norm x = true := by
  match b, h with
  | x :: r', h =>
    simp only [takeSep] at h
    split at h
    · rename_i hx
      simp only [Option.some.injEq] at h; subst h
      exact ⟨x, rfl, hx⟩
    · cases h

/-- shape of an input on which the shared server/share tail found a non-empty share -/
theorem serverShare_complete {norm : Bool} {b sv sh rest : Bytes} (h : serverShare norm b = some (sv, sh, rest))
    (hsh : sh ≠ []) :
    ∃ x, b = sv ++ x :: (sh ++ rest) ∧ wsep norm x = true ∧ sv ≠ [] ∧ (∀ y ∈ sv, wsep norm y = false) ∧
      (∀ y ∈ sh, wsep norm y = false) ∧ HeadOK (wsep norm) rest := by
  unfold serverShare at h
  cases ht1 : takeNormal norm b with
  | none => simp [ht1] at h
  | some u =>
    obtain ⟨svv, r1⟩ := u
    simp only [ht1] at h
    cases ht2 : takeNormal norm (maybeSep norm r1) with
    | none =>
      simp only [ht2, Option.some.injEq, Prod.mk.injEq] at h
      exact absurd h.2.1.symm hsh
    | some w =>
      obtain ⟨shh, r2⟩ := w
      simp only [ht2, Option.some.injEq, Prod.mk.injEq] at h
      obtain ⟨e1, e2, e3⟩ := h
      subst e1; subst e2; subst e3
      obtain ⟨hr0, hsvne, hsvfree, hr1⟩ := takeNormal_some ht1
      obtain ⟨hm, _, hshfree, hrest⟩ := takeNormal_some ht2
      cases r1 with
      | nil => simp [maybeSep, takeSep, takeNormal] at ht2
      | cons x t =>
        have hx : wsep norm x = true := hr1
        have hms : maybeSep norm (x :: t) = t := by simp [maybeSep, takeSep, hx]
        rw [hms] at hm
        subst hm; subst hr0
        exact ⟨x, rfl, hx, hsvne, hsvfree, hshfree, hrest⟩

theorem serverShare_mk (norm : Bool) (sv sh rest : Bytes) (x : UInt8) (hx : wsep norm x = true)
    (hsvne : sv ≠ []) (hsvfree : ∀ y ∈ sv, wsep norm y = false) (hsh : sh ≠ [])
    (hshfree : ∀ y ∈ sh, wsep norm y = false) (hrest : HeadOK (wsep norm) rest) :
    serverShare norm (sv ++ x :: (sh ++ rest)) = some (sv, sh, rest) := by
  have t1 : takeNormal norm (sv ++ x :: (sh ++ rest)) = some (sv, x :: (sh ++ rest)) :=
    takeNormal_mk _ sv _ hsvne hsvfree hx
  have t2 : takeNormal norm (sh ++ rest) = some (sh, rest) := takeNormal_mk _ sh rest hsh hshfree hrest
  have hms : maybeSep norm (x :: (sh ++ rest)) = sh ++ rest := by simp [maybeSep, takeSep, hx]
  simp only [serverShare, t1, hms, t2]

/-- A verbatim UNC prefix with a non-empty share is produced exactly for
`sep sep ? sep UNC sep server sep share` (the last two separators, and the bytes excluded from
server and share, being those of the path's separator set: only `\` when the path starts with
exactly `\\?\`). -/
theorem verbatim_unc_complete_iff (b rest sv sh : Bytes) (hsh : sh ≠ []) :
    parsePrefix b = some (.verbatimUNC sv sh, rest) ↔
      ∃ s1 s2 s3 x0 x, b = s1 :: s2 :: QMARK :: s3 :: 85 :: 78 :: 67 :: x0 :: (sv ++ x :: (sh ++ rest)) ∧
        anySep s1 = true ∧ anySep s2 = true ∧ anySep s3 = true ∧
        wsep (!startsWith [s1, s2, QMARK, s3] VERB) x0 = true ∧ wsep (!startsWith [s1, s2, QMARK, s3] VERB) x = true ∧
        sv ≠ [] ∧ (∀ y ∈ sv, wsep (!startsWith [s1, s2, QMARK, s3] VERB) y = false) ∧
        (∀ y ∈ sh, wsep (!startsWith [s1, s2, QMARK, s3] VERB) y = false) ∧
        HeadOK (wsep (!startsWith [s1, s2, QMARK, s3] VERB)) rest := by
  constructor
  · intro h
    rcases parsePrefix_alts h with ⟨_, h1⟩ | ⟨ht, _⟩ | ⟨ht, _⟩ | ⟨ht, _⟩ | ⟨ht, _⟩ | ⟨ht, _⟩
    all_goals try (simp [WPrefix.tag] at ht)
    unfold prefixVerbatimUNC at h1
    simp only at h1
    cases hv : verbatimHdr b with
    | none => simp [hv] at h1
    | some r =>
      obtain ⟨s1, s2, s3, hb, hs1, hs2, hs3⟩ := verbatimHdr_some hv
      simp only [hv] at h1
      cases hu : takeUNC r with
      | none => simp [hu] at h1
      | some r' =>
        have hr := takeUNC_some hu
        simp only [hu] at h1
        cases hts : takeSep (!startsWith b VERB) r' with
        | none => simp [hts] at h1
        | some r0 =>
          obtain ⟨x0, hr', hx0⟩ := takeSep_some hts
          simp only [hts] at h1
          cases hs : serverShare (!startsWith b VERB) r0 with
          | none => simp [hs] at h1
          | some t =>
            obtain ⟨sv', sh', rr⟩ := t
            simp only [hs, Option.some.injEq, Prod.mk.injEq, WPrefix.verbatimUNC.injEq] at h1
            obtain ⟨⟨e1, e2⟩, e3⟩ := h1
            subst e1; subst e2; subst e3
            obtain ⟨x, hr0, hx, hsvne, hsvfree, hshfree, hrest⟩ := serverShare_complete hs hsh
            have hnorm : startsWith b VERB = startsWith [s1, s2, QMARK, s3] VERB := by
              rw [hb]; exact startsWith_hdr _ _ _ _ _
            rw [hnorm] at hx0 hx hsvfree hshfree hrest
            refine ⟨s1, s2, s3, x0, x, ?_, hs1, hs2, hs3, hx0, hx, hsvne, hsvfree, hshfree, hrest⟩
            rw [hb, hr, hr', hr0]
  · intro ⟨s1, s2, s3, x0, x, hb, h1, h2, h3, hx0, hx, hsvne, hsvfree, hshfree, hrest⟩
    subst hb
    have hss := serverShare_mk (!startsWith [s1, s2, QMARK, s3] VERB) sv sh rest x hx hsvne hsvfree hsh hshfree hrest
    have a1 : prefixVerbatimUNC (s1 :: s2 :: QMARK :: s3 :: 85 :: 78 :: 67 :: x0 :: (sv ++ x :: (sh ++ rest)))
        = some (.verbatimUNC sv sh, rest) := by
      unfold prefixVerbatimUNC
      simp only [verbatimHdr_eq, startsWith_hdr, h1, h2, h3, Bool.and_self, decide_true, if_true, takeUNC,
        takeSep, hx0, hss]
    unfold parsePrefix
    simp [a1]

theorem stable_verbatimUNC {b rest : Bytes} {p : PrefixComp} {sv sh : Bytes}
    (h : parsePrefixComp b = some (p, rest)) (hk : p.kind = .verbatimUNC sv sh) (hsh : sh ≠ []) : Stable p := by
  have hraw := parsePrefixComp_raw h
  have hp := parsePrefix_of_comp h
  rw [hk] at hp
  obtain ⟨s1, s2, s3, x0, x, hb, h1, h2, h3, hx0, hx, hsvne, hsvfree, hshfree, _⟩ :=
    (verbatim_unc_complete_iff b rest sv sh hsh).mp hp
  have hr : p.raw = s1 :: s2 :: QMARK :: s3 :: 85 :: 78 :: 67 :: x0 :: (sv ++ x :: sh) := by
    rw [hb] at hraw
    have : p.raw ++ rest = (s1 :: s2 :: QMARK :: s3 :: 85 :: 78 :: 67 :: x0 :: (sv ++ x :: sh)) ++ rest := by
      simpa using hraw
    exact List.append_cancel_right this
  have hn : normOf p.raw = !startsWith [s1, s2, QMARK, s3] VERB := by
    rw [hr]; unfold normOf; rw [startsWith_hdr]
  intro rest' hok
  have hok' : HeadOK (wsep (!startsWith [s1, s2, QMARK, s3] VERB)) rest' := by
    cases rest' with
    | nil => trivial
    | cons y r =>
      unfold RestOK at hok
      rw [hk] at hok
      have : wsep (normOf p.raw) y = true := hok
      rw [hn] at this
      exact this
  constructor
  · have := (verbatim_unc_complete_iff (s1 :: s2 :: QMARK :: s3 :: 85 :: 78 :: 67 :: x0 :: (sv ++ x :: (sh ++ rest'))) rest' sv sh hsh).mpr
      ⟨s1, s2, s3, x0, x, rfl, h1, h2, h3, hx0, hx, hsvne, hsvfree, hshfree, hok'⟩
    have h2' := parsePrefixComp_of (raw := s1 :: s2 :: QMARK :: s3 :: 85 :: 78 :: 67 :: x0 :: (sv ++ x :: sh)) (rest := rest')
      (k := .verbatimUNC sv sh) (by simpa using this)
    rw [hr]
    have : (⟨s1 :: s2 :: QMARK :: s3 :: 85 :: 78 :: 67 :: x0 :: (sv ++ x :: sh), .verbatimUNC sv sh⟩ : PrefixComp) = p := by
      cases p; simp only at hr hk; subst hr; subst hk; rfl
    rw [← this]; exact h2'
  · rw [hr]; exact startsWith_append_long _ _ (by simp)

end TP.Win

namespace TP.Win

open TP

/-! ### verbatim with a name other than `UNC` -/

/-- `bytes(b"UNC")` as a name -/
def UNCNAME : Bytes := [85, 78, 67]

/-- does the name start like a drive (`X:`)? then the verbatim-disk alternative takes it -/
def startsLetterColon : Bytes → Bool
  | d :: c :: _ => isAsciiAlpha d && decide (c = COLON)
  | _ => false

theorem wsep_colon (n : Bool) : wsep n COLON = false := by cases n <;> decide
theorem wsep_78 (n : Bool) : wsep n 78 = false := by cases n <;> decide
theorem wsep_67 (n : Bool) : wsep n 67 = false := by cases n <;> decide

theorem diskByte_name_none (n : Bool) (name rest : Bytes) (hne : name ≠ [])
    (hrest : HeadOK (wsep n) rest) (hlc : startsLetterColon name = false) :
    diskByte (name ++ rest) = none := by
  match name, hne with
  | [d], _ =>
    cases rest with
    | nil => rfl
    | cons c r =>
      have hc : wsep n c = true := hrest
      have : c ≠ COLON := by intro hE; rw [hE, wsep_colon] at hc; cases hc
      simp [diskByte, this]
  | d :: c :: t, _ =>
    simp only [startsLetterColon] at hlc
    simp [diskByte, hlc]

theorem verbUNC_name_none (b : Bytes) (s1 s2 s3 : UInt8) (name rest : Bytes)
    (hb : b = s1 :: s2 :: QMARK :: s3 :: (name ++ rest))
    (hne : name ≠ []) (hfree : ∀ y ∈ name, wsep (!startsWith b VERB) y = false)
    (hrest : HeadOK (wsep (!startsWith b VERB)) rest) (hunc : name ≠ UNCNAME) :
    prefixVerbatimUNC b = none := by
  unfold prefixVerbatimUNC
  simp only
  cases hv : verbatimHdr b with
  | none => rfl
  | some r =>
    obtain ⟨t1, t2, t3, hb', _, _, _⟩ := verbatimHdr_some hv
    have hr : r = name ++ rest := by
      rw [hb] at hb'
      simp only [List.cons.injEq] at hb'
      exact hb'.2.2.2.2.symm
    simp only
    cases hu : takeUNC r with
    | none => rfl
    | some r' =>
      have h3 := takeUNC_some hu
      rw [hr] at h3
      simp only
      match name, hne with
      | [a], _ =>
        simp only [List.singleton_append, List.cons.injEq] at h3
        have : HeadOK (wsep (!startsWith b VERB)) (78 :: 67 :: r') := by rw [← h3.2]; exact hrest
        have : wsep (!startsWith b VERB) 78 = true := this
        rw [wsep_78] at this; cases this
      | [a, c], _ =>
        simp only [List.cons_append, List.nil_append, List.cons.injEq] at h3
        have : HeadOK (wsep (!startsWith b VERB)) (67 :: r') := by rw [← h3.2.2]; exact hrest
        have : wsep (!startsWith b VERB) 67 = true := this
        rw [wsep_67] at this; cases this
      | [a, c, d], _ =>
        simp only [List.cons_append, List.nil_append, List.cons.injEq] at h3
        exact absurd (by rw [h3.1, h3.2.1, h3.2.2.1]; rfl) hunc
      | a :: c :: d :: e :: t, _ =>
        simp only [List.cons_append, List.cons.injEq] at h3
        have he : wsep (!startsWith b VERB) e = false := hfree e (by simp)
        rw [← h3.2.2.2]
        simp [takeSep, he]

/-- A verbatim prefix with a non-empty name other than `UNC` is produced exactly for
`sep sep ? sep name`, the name being separator-free (for the path's separator set), not starting
like a drive, and followed by the end or a separator. -/
theorem verbatim_named_iff (b rest name : Bytes) (hne : name ≠ []) (hunc : name ≠ UNCNAME) :
    parsePrefix b = some (.verbatim name, rest) ↔
      ∃ s1 s2 s3, b = s1 :: s2 :: QMARK :: s3 :: (name ++ rest) ∧
        anySep s1 = true ∧ anySep s2 = true ∧ anySep s3 = true ∧
        (∀ y ∈ name, wsep (!startsWith [s1, s2, QMARK, s3] VERB) y = false) ∧
        HeadOK (wsep (!startsWith [s1, s2, QMARK, s3] VERB)) rest ∧ startsLetterColon name = false := by
  constructor
  · intro h
    rcases parsePrefix_alts h with ⟨ht, _⟩ | ⟨ht, _⟩ | ⟨_, h1, h2, h3⟩ | ⟨ht, _⟩ | ⟨ht, _⟩ | ⟨ht, _⟩
    all_goals try (simp [WPrefix.tag] at ht)
    rw [C02b.prefixVerbatim_guards_redundant b h1 h2] at h3
    cases hv : verbatimHdr b with
    | none => simp [hv] at h3
    | some r =>
      obtain ⟨s1, s2, s3, hb, hs1, hs2, hs3⟩ := verbatimHdr_some hv
      have hnorm : startsWith b VERB = startsWith [s1, s2, QMARK, s3] VERB := by
        rw [hb]; exact startsWith_hdr _ _ _ _ _
      simp only [hv] at h3
      cases htn : takeNormal (!startsWith b VERB) r with
      | none =>
        simp only [htn] at h3
        cases hts : takeSep (!startsWith b VERB) r with
        | none => simp [hts] at h3
        | some _ =>
          simp only [hts, Option.some.injEq, Prod.mk.injEq, WPrefix.verbatim.injEq] at h3
          exact absurd h3.1.symm hne
      | some w =>
        obtain ⟨nm, r'⟩ := w
        simp only [htn, Option.some.injEq, Prod.mk.injEq, WPrefix.verbatim.injEq] at h3
        obtain ⟨e1, e2⟩ := h3
        subst e1; subst e2
        obtain ⟨hr, _, hfree, hrest⟩ := takeNormal_some htn
        rw [hnorm] at hfree hrest
        refine ⟨s1, s2, s3, by rw [hb, hr], hs1, hs2, hs3, hfree, hrest, ?_⟩
        -- the verbatim-disk alternative failed, so the name does not start like a drive
        unfold prefixVerbatimDisk at h2
        simp only [hv] at h2
        cases hd : diskByte r with
        | some x => simp [hd] at h2
        | none =>
          rw [hr] at hd
          match nm, hne with
          | [d], _ => rfl
          | d :: c :: t, _ =>
            simp only [startsLetterColon]
            simp only [List.cons_append, diskByte] at hd
            split at hd
            · cases hd
            · rename_i hcond
              simpa using hcond
  · intro ⟨s1, s2, s3, hb, h1, h2, h3, hfree, hrest, hlc⟩
    have hnorm : startsWith b VERB = startsWith [s1, s2, QMARK, s3] VERB := by
      rw [hb]; exact startsWith_hdr _ _ _ _ _
    have hv : verbatimHdr b = some (name ++ rest) := by
      rw [hb, verbatimHdr_eq]; simp [h1, h2, h3]
    have a1 : prefixVerbatimUNC b = none :=
      verbUNC_name_none b s1 s2 s3 name rest hb hne (by rw [hnorm]; exact hfree) (by rw [hnorm]; exact hrest) hunc
    have a2 : prefixVerbatimDisk b = none := by
      unfold prefixVerbatimDisk
      simp only [hv, diskByte_name_none _ name rest hne hrest hlc]
    have tn : takeNormal (!startsWith b VERB) (name ++ rest) = some (name, rest) := by
      rw [hnorm]; exact takeNormal_mk _ name rest hne hfree hrest
    have a3 : prefixVerbatim b = some (.verbatim name, rest) := by
      rw [C02b.prefixVerbatim_guards_redundant b a1 a2, hv]
      simp only [tn]
    unfold parsePrefix
    simp [a1, a2, a3]

theorem stable_verbatim {b rest : Bytes} {p : PrefixComp} {name : Bytes}
    (h : parsePrefixComp b = some (p, rest)) (hk : p.kind = .verbatim name) (hne : name ≠ [])
    (hunc : name ≠ UNCNAME) : Stable p := by
  have hraw := parsePrefixComp_raw h
  have hp := parsePrefix_of_comp h
  rw [hk] at hp
  obtain ⟨s1, s2, s3, hb, h1, h2, h3, hfree, _, hlc⟩ := (verbatim_named_iff b rest name hne hunc).mp hp
  have hr : p.raw = s1 :: s2 :: QMARK :: s3 :: name := by
    rw [hb] at hraw
    have : p.raw ++ rest = (s1 :: s2 :: QMARK :: s3 :: name) ++ rest := by simpa using hraw
    exact List.append_cancel_right this
  have hn : normOf p.raw = !startsWith [s1, s2, QMARK, s3] VERB := by
    rw [hr]; unfold normOf; rw [startsWith_hdr]
  intro rest' hok
  have hok' : HeadOK (wsep (!startsWith [s1, s2, QMARK, s3] VERB)) rest' := by
    cases rest' with
    | nil => trivial
    | cons y r =>
      unfold RestOK at hok
      rw [hk] at hok
      have : wsep (normOf p.raw) y = true := hok
      rw [hn] at this
      exact this
  constructor
  · have := (verbatim_named_iff (s1 :: s2 :: QMARK :: s3 :: (name ++ rest')) rest' name hne hunc).mpr
      ⟨s1, s2, s3, rfl, h1, h2, h3, hfree, hok', hlc⟩
    have h2' := parsePrefixComp_of (raw := s1 :: s2 :: QMARK :: s3 :: name) (rest := rest')
      (k := .verbatim name) (by simpa using this)
    rw [hr]
    have : (⟨s1 :: s2 :: QMARK :: s3 :: name, .verbatim name⟩ : PrefixComp) = p := by
      cases p; simp only at hr hk; subst hr; subst hk; rfl
    rw [← this]; exact h2'
  · rw [hr]; exact startsWith_append_long _ _ (by simp)

/-! ### summary: which prefixes are stable -/

/-- "complete" prefixes: a UNC / verbatim UNC prefix has a share, a verbatim prefix has a name
other than `UNC` (DESIGN §2.3 "well-formed") -/
def Complete : WPrefix → Prop
  | .verbatim name => name ≠ [] ∧ name ≠ UNCNAME
  | .verbatimUNC _ sh => sh ≠ []
  | .unc _ sh => sh ≠ []
  | _ => True

/-- **Every complete prefix the parser returns is stable**: it is parsed again, identically, from
its raw text followed by anything the kind tolerates. -/
theorem stable_of_complete {b rest : Bytes} {p : PrefixComp}
    (h : parsePrefixComp b = some (p, rest)) (hc : Complete p.kind) : Stable p := by
  cases hk : p.kind with
  | verbatim name => rw [hk] at hc; exact stable_verbatim h hk hc.1 hc.2
  | verbatimUNC sv sh => rw [hk] at hc; exact stable_verbatimUNC h hk hc
  | verbatimDisk d => exact stable_verbatimDisk h hk
  | deviceNS dev => exact stable_deviceNS h hk
  | unc sv sh => rw [hk] at hc; exact stable_unc h hk hc
  | disk d => exact stable_disk h hk

/-- the incomplete prefixes really are unstable -/
example : parsePrefix [92, 92, 115] = some (.unc [115] [], []) ∧
    parsePrefix ([92, 92, 115] ++ [92, 120]) = some (.unc [115] [120], []) := by decide
example : parsePrefix [92, 92, 63, 92, 92, 97] = some (.verbatim [], [92, 97]) ∧
    parsePrefix [92, 92, 63, 92] = some (.unc [63] [], []) := by decide
example : parsePrefix [92, 92, 63, 92, 85, 78, 67] = some (.verbatim [85, 78, 67], []) ∧
    parsePrefix ([92, 92, 63, 92, 85, 78, 67] ++ [92, 115]) = some (.verbatimUNC [115] [], []) := by decide

end TP.Win

namespace TP.Win

open TP

/-- what follows a complete prefix in the input it was parsed from is something the kind tolerates -/
theorem restOK_of_complete {b rest : Bytes} {p : PrefixComp}
    (h : parsePrefixComp b = some (p, rest)) (hc : Complete p.kind) : RestOK p rest := by
  have hraw := parsePrefixComp_raw h
  have hp := parsePrefix_of_comp h
  unfold RestOK
  cases hk : p.kind with
  | disk d => trivial
  | verbatimDisk d => trivial
  | deviceNS dev =>
    simp only
    rw [hk] at hp
    obtain ⟨s1, s2, s3, hb, _, _, _, _, _, hrest⟩ := (C02b.device_ns_iff b rest dev).mp hp
    have hr : p.raw = s1 :: s2 :: DOT :: s3 :: dev := by
      rw [hb] at hraw
      have : p.raw ++ rest = (s1 :: s2 :: DOT :: s3 :: dev) ++ rest := by simpa using hraw
      exact List.append_cancel_right this
    have hnv : normOf p.raw = true := by
      rw [hr]; simp [normOf, startsWith, VERB, List.isPrefixOf, DOT, QMARK]
    rw [hnv]
    exact (headOK_match _ _).mpr hrest
  | unc sv sh =>
    simp only
    rw [hk] at hp hc
    obtain ⟨s1, s2, x, hb, _, _, _, hsvne, hsvfree, hq, _, _, hrest⟩ := (unc_complete_iff b rest sv sh hc).mp hp
    have hr : p.raw = s1 :: s2 :: (sv ++ x :: sh) := by
      rw [hb] at hraw
      have : p.raw ++ rest = (s1 :: s2 :: (sv ++ x :: sh)) ++ rest := by simpa using hraw
      exact List.append_cancel_right this
    have hnv : normOf p.raw = true := by
      rw [hr]
      match sv, hsvne with
      | [q], _ =>
        have : q ≠ QMARK := fun h => hq (by rw [h])
        have : QMARK ≠ q := fun h => this h.symm
        simp [normOf, startsWith, VERB, List.isPrefixOf, this]
      | q :: c :: t, _ =>
        have hc' : anySep c = false := hsvfree c (by simp)
        have : BSLASH ≠ c := by intro hE; rw [← hE] at hc'; revert hc'; decide
        simp [normOf, startsWith, VERB, List.isPrefixOf, this]
    rw [hnv]; exact hrest
  | verbatimUNC sv sh =>
    simp only
    rw [hk] at hp hc
    obtain ⟨s1, s2, s3, x0, x, hb, _, _, _, _, _, _, _, _, hrest⟩ := (verbatim_unc_complete_iff b rest sv sh hc).mp hp
    have hr : p.raw = s1 :: s2 :: QMARK :: s3 :: 85 :: 78 :: 67 :: x0 :: (sv ++ x :: sh) := by
      rw [hb] at hraw
      have : p.raw ++ rest = (s1 :: s2 :: QMARK :: s3 :: 85 :: 78 :: 67 :: x0 :: (sv ++ x :: sh)) ++ rest := by
        simpa using hraw
      exact List.append_cancel_right this
    have hn : normOf p.raw = !startsWith [s1, s2, QMARK, s3] VERB := by
      rw [hr]; unfold normOf; rw [startsWith_hdr]
    rw [hn]; exact hrest
  | verbatim name =>
    simp only
    rw [hk] at hp hc
    obtain ⟨s1, s2, s3, hb, _, _, _, _, hrest, _⟩ := (verbatim_named_iff b rest name hc.1 hc.2).mp hp
    have hr : p.raw = s1 :: s2 :: QMARK :: s3 :: name := by
      rw [hb] at hraw
      have : p.raw ++ rest = (s1 :: s2 :: QMARK :: s3 :: name) ++ rest := by simpa using hraw
      exact List.append_cancel_right this
    have hn : normOf p.raw = !startsWith [s1, s2, QMARK, s3] VERB := by
      rw [hr]; unfold normOf; rw [startsWith_hdr]
    rw [hn]; exact hrest

end TP.Win
