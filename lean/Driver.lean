/-
Driver.lean — line protocol for the correspondence check.

One operation per input line, one canonical result line per operation.  The Rust harness
(`/verif/harness`) executes the same lines on the real crate and prints results in the same
format; `check` diffs the two streams.  Byte strings are written `x<hex>` (`x` = empty).
Import-free (apart from the model), so this links as a native executable.
-/
import TypedPathVerif.Model.Path
import TypedPathVerif.Spec.StdSpec
import TypedPathVerif.Spec.StdBuf
import TypedPathVerif.Spec.HashSpec
import TypedPathVerif.Spec.Utf8
import TypedPathVerif.Spec.Lossy
import TypedPathVerif.Spec.Chars
import TypedPathVerif.Model.Comb.Windows

open TP

def hexDigit (n : Nat) : Char :=
  if n < 10 then Char.ofNat (48 + n) else Char.ofNat (87 + n)

def hexOf (b : Bytes) : String :=
  String.ofList ('x' :: b.flatMap (fun x => [hexDigit (x.toNat / 16), hexDigit (x.toNat % 16)]))

def hexVal (c : Char) : Option Nat :=
  if '0' ≤ c ∧ c ≤ '9' then some (c.toNat - 48)
  else if 'a' ≤ c ∧ c ≤ 'f' then some (c.toNat - 87)
  else none

def parseHexAux : List Char → Option Bytes
  | [] => some []
  | a :: b :: r =>
    match hexVal a, hexVal b, parseHexAux r with
    | some x, some y, some rest => some (UInt8.ofNat (x * 16 + y) :: rest)
    | _, _, _ => none
  | _ => none

def parseHex (s : String) : Option Bytes :=
  match s.toList with
  | 'x' :: r => parseHexAux r
  | _ => none

def parseEnc (s : String) : Option Enc :=
  if s = "u" then some .unix else if s = "w" then some .windows else none

def showKind : WPrefix → String
  | .verbatim a => s!"0:{hexOf a}:x"
  | .verbatimUNC a b => s!"1:{hexOf a}:{hexOf b}"
  | .verbatimDisk d => s!"2:{hexOf [d]}:x"
  | .deviceNS a => s!"3:{hexOf a}:x"
  | .unc a b => s!"4:{hexOf a}:{hexOf b}"
  | .disk d => s!"5:{hexOf [d]}:x"

def showComp : Comp → String
  | .pfx p => s!"P:{showKind p.kind}:{hexOf p.raw}"
  | .root => "R"
  | .cur => "C"
  | .parent => "U"
  | .normal s => s!"N:{hexOf s}"

def showComps (cs : List Comp) : String := "[" ++ " ".intercalate (cs.map showComp) ++ "]"

def showBool (b : Bool) : String := if b then "1" else "0"

def showOptBytes : Option Bytes → String
  | some b => "some:" ++ hexOf b
  | none => "none"

def showErr : CheckedErr → String
  | .invalidFilename => "InvalidFilename"
  | .pathTraversal => "PathTraversalAttack"
  | .unexpectedPrefix => "UnexpectedPrefix"
  | .unexpectedRoot => "UnexpectedRoot"

def showExcept : Except CheckedErr Bytes → String
  | .ok b => "ok:" ++ hexOf b
  | .error e => "err:" ++ showErr e

def showOrd : Ordering → String
  | .lt => "lt" | .eq => "eq" | .gt => "gt"

/-- front/back interleaving: after each step the component (or `none`) and `remaining()` -/
def runMix (s : PState) : List Char → List String
  | [] => []
  | c :: cs =>
    let r := if c = 'f' then s.nextFront else s.nextBack
    match r with
    | some (comp, s') => s!"{showComp comp}@{hexOf s'.remaining}" :: runMix s' cs
    | none => s!"none@{hexOf s.remaining}" :: runMix s cs

def showFault : Comb.Fault → String
  | .panic => "PANIC"
  | .diverge => "DIVERGE"

/-- the same interleaving on the byte-level combinator transcription (`Model/Comb`) -/
def runCMixU (s : Comb.Unix.St) : List Char → List String
  | [] => []
  | c :: cs =>
    let r := if c = 'f' then s.nextFront else s.nextBack
    match r with
    | .some comp s' => s!"{showComp comp}@{hexOf s'.remaining}" :: runCMixU s' cs
    | .none => s!"none@{hexOf s.remaining}" :: runCMixU s cs
    | .fault f => [showFault f]

def runCMixW (s : Comb.Windows.St) : List Char → List String
  | [] => []
  | c :: cs =>
    let r := if c = 'f' then s.nextFront else s.nextBack
    match r with
    | .some comp s' => s!"{showComp comp}@{hexOf s'.remaining}" :: runCMixW s' cs
    | .none => s!"none@{hexOf s.remaining}" :: runCMixW s cs
    | .fault f => [showFault f]

def showWQueries (b : Bytes) : String :=
  let p := match wPrefix b with | some p => showComp (.pfx p) | none => "none"
  s!"pfx={p} len={wPrefixLen b} has={showBool (wHasPrefix b)} any={showBool (wHasAnyVerbatimPrefix b)} " ++
  s!"v={showBool (wHasKindIn Generated.verbatimTags b)} vu={showBool (wHasKindIn Generated.verbatimUNCTags b)} " ++
  s!"vd={showBool (wHasKindIn Generated.verbatimDiskTags b)} dn={showBool (wHasKindIn Generated.deviceNSTags b)} " ++
  s!"unc={showBool (wHasKindIn Generated.uncTags b)} disk={showBool (wHasKindIn Generated.diskTags b)} " ++
  s!"phys={showBool (wHasPhysicalRoot b)} impl={showBool (wHasImplicitRoot b)} " ++
  s!"root={showBool (hasRoot .windows b)} abs={showBool (isAbsolute .windows b)}"

/-- mutation histories on a buffer -/
def runHist (e : Enc) (buf : Bytes) : List String → Option (List String)
  | [] => some []
  | op :: ops =>
    let parts := op.splitOn ":"
    match parts with
    | ["pop"] =>
      let (b', r) := pop e buf
      (runHist e b' ops).map (fun t => s!"{hexOf b'}:{showBool r}" :: t)
    | ["clear"] => (runHist e [] ops).map (fun t => hexOf [] :: t)
    | [name, arg] =>
      match parseHex arg with
      | none => none
      | some a =>
        if name = "push" then
          let b' := push e buf a
          (runHist e b' ops).map (fun t => hexOf b' :: t)
        else if name = "setfn" then
          let b' := setFileName e buf a
          (runHist e b' ops).map (fun t => hexOf b' :: t)
        else if name = "setext" then
          let (b', r) := setExtension e buf a
          (runHist e b' ops).map (fun t => s!"{hexOf b'}:{showBool r}" :: t)
        else if name = "pushc" then
          match pushChecked e buf a with
          | .ok b' => (runHist e b' ops).map (fun t => s!"{hexOf b'}:ok" :: t)
          | .error err => (runHist e buf ops).map (fun t => s!"{hexOf buf}:{showErr err}" :: t)
        else none
    | _ => none

/-- histories on the *specification* of std::path::PathBuf (Spec/StdBuf.lean) -/
def runStdHist (buf : Bytes) : List String → Option (List String)
  | [] => some []
  | op :: ops =>
    match op.splitOn ":" with
    | ["pop"] =>
      let r := StdBuf.stdStep buf .pop
      (runStdHist r.1 ops).map (fun t => s!"{hexOf r.1}:{showBool r.2}" :: t)
    | ["clear"] => (runStdHist [] ops).map (fun t => hexOf [] :: t)
    | [name, arg] =>
      match parseHex arg with
      | none => none
      | some a =>
        if name = "push" then
          let r := StdBuf.stdStep buf (.push a)
          (runStdHist r.1 ops).map (fun t => hexOf r.1 :: t)
        else if name = "setfn" then
          let r := StdBuf.stdStep buf (.setFileName a)
          (runStdHist r.1 ops).map (fun t => hexOf r.1 :: t)
        else if name = "setext" then
          let r := StdBuf.stdStep buf (.setExtension a)
          (runStdHist r.1 ops).map (fun t => s!"{hexOf r.1}:{showBool r.2}" :: t)
        else none
    | _ => none

def badOp : String := "bad-op"

def step (line : String) : String :=
  match line.trimAscii.toString.splitOn " " with
  | ["mix", e, h, mask] =>
    match parseEnc e, parseHex h with
    | some e, some b =>
      let m := if mask = "-" then [] else mask.toList
      if m.all (fun c => c = 'f' || c = 'b') then " ".intercalate (runMix (e.new b) m) else badOp
    | _, _ => badOp
  | ["cmix", e, h, mask] =>
    match parseEnc e, parseHex h with
    | some e, some b =>
      let m := if mask = "-" then [] else mask.toList
      if m.all (fun c => c = 'f' || c = 'b') then
        match e with
        | .unix => " ".intercalate (runCMixU (Comb.Unix.St.new b) m)
        | .windows =>
          match Comb.Windows.St.new b with
          | .ok st => " ".intercalate (runCMixW st m)
          | .error f => showFault f
      else badOp
    | _, _ => badOp
  | ["comps", e, h] =>
    match parseEnc e, parseHex h with
    | some e, some b =>
      s!"{showComps (comps e b)} root={showBool (hasRoot e b)} abs={showBool (isAbsolute e b)}"
    | _, _ => badOp
  | ["back", e, h] =>
    match parseEnc e, parseHex h with
    | some e, some b => showComps (e.new b).compsBack
    | _, _ => badOp
  | ["wq", h] =>
    match parseHex h with
    | some b => showWQueries b
    | none => badOp
  | ["parent", e, h] =>
    match parseEnc e, parseHex h with
    | some e, some b => showOptBytes (parent e b)
    | _, _ => badOp
  | ["anc", e, h] =>
    match parseEnc e, parseHex h with
    | some e, some b => " ".intercalate ((ancestors e b).map hexOf)
    | _, _ => badOp
  | ["fname", e, h] =>
    match parseEnc e, parseHex h with
    | some e, some b =>
      s!"{showOptBytes (fileName e b)} {showOptBytes (fileStem e b)} {showOptBytes (extension e b)}"
    | _, _ => badOp
  | ["strip", e, p, q] =>
    match parseEnc e, parseHex p, parseHex q with
    | some e, some p, some q =>
      s!"{showOptBytes (stripPrefix e p q)} sw={showBool (startsWithP e p q)} ew={showBool (endsWithP e p q)}"
    | _, _, _ => badOp
  | ["norm", e, h] =>
    match parseEnc e, parseHex h with
    | some e, some b => hexOf (normalize e b)
    | _, _ => badOp
  | ["abs", e, cwd, h] =>
    -- the current directory arrives in the native (Unix) encoding and is converted, as the crate does
    match parseEnc e, parseHex cwd, parseHex h with
    | some e, some cwd, some b => hexOf (absolutize e (withEncoding .unix e cwd) b)
    | _, _, _ => badOp
  | ["push", e, a, b] =>
    match parseEnc e, parseHex a, parseHex b with
    | some e, some a, some b => hexOf (push e a b)
    | _, _, _ => badOp
  | ["pushc", e, a, b] =>
    match parseEnc e, parseHex a, parseHex b with
    | some e, some a, some b => showExcept (pushChecked e a b)
    | _, _, _ => badOp
  | ["pop", e, a] =>
    match parseEnc e, parseHex a with
    | some e, some a => let (b, r) := pop e a; s!"{hexOf b}:{showBool r}"
    | _, _ => badOp
  | ["setfn", e, a, n] =>
    match parseEnc e, parseHex a, parseHex n with
    | some e, some a, some n => hexOf (setFileName e a n)
    | _, _, _ => badOp
  | ["setext", e, a, x] =>
    match parseEnc e, parseHex a, parseHex x with
    | some e, some a, some x => let (b, r) := setExtension e a x; s!"{hexOf b}:{showBool r}"
    | _, _, _ => badOp
  | ["conv", s, t, h] =>
    match parseEnc s, parseEnc t, parseHex h with
    | some s, some t, some b => s!"{hexOf (withEncoding s t b)} {showExcept (withEncodingChecked s t b)}"
    | _, _, _ => badOp
  | ["valid", e, h] =>
    match parseEnc e, parseHex h with
    | some e, some b => showBool (isValid e b)
    | _, _ => badOp
  | ["rel", e, a, b] =>
    match parseEnc e, parseHex a, parseHex b with
    | some e, some a, some b => s!"eq={showBool (pathEq e a b)} cmp={showOrd (pathCmp e a b)}"
    | _, _, _ => badOp
  | ["hash", e, a] =>
    match parseEnc e, parseHex a with
    | some e, some a => " ".intercalate ((hashChunks e a).map hexOf)
    | _, _ => badOp
  | ["hashspec", e, a] =>
    match parseEnc e, parseHex a with
    | some e, some a => " ".intercalate ((C05.hashSpec e a).map hexOf)
    | _, _ => badOp
  | ["stdutf8", h] =>
    -- the *specification* of well-formed UTF-8 (Spec/Utf8.lean); the harness answers with
    -- core::str::from_utf8
    match parseHex h with
    | some b => showBool (Utf8.validB b)
    | none => badOp
  | ["u8dot", e, h] =>
    -- file_stem / extension of the UTF-8 family, computed over CHARACTERS (Spec/Chars.lean); asked only for
    -- valid UTF-8, where the harness answers with Utf8Path::file_stem / extension
    match parseEnc e, parseHex h with
    | some e, some b =>
      let r := Utf8.u8StemExt e b
      s!"stem={showOptBytes r.1} ext={showOptBytes r.2}"
    | _, _ => badOp
  | ["u8valid", e, h] =>
    -- Utf8Path::is_valid over characters and the regenerated `char` tables
    match parseEnc e, parseHex h with
    | some e, some b => showBool (Utf8.u8IsValid e b)
    | _, _ => badOp
  | ["lossy", h] =>
    -- `to_str` and the lossy / Display text (Spec/Lossy.lean); the harness answers with the crate's
    -- `Path::to_str`, `to_string_lossy` and `display()` and checks them against real std
    match parseHex h with
    | some b =>
      let s := match C19.toStr b with
        | some x => hexOf x
        | none => "none"
      s!"str={s} lossy={hexOf (C19.display b)}"
    | none => badOp
  | ["stdcomps", h] =>
    -- the *specification* (Spec/StdSpec.lean); the harness answers with real std::path
    match parseHex h with
    | some b => s!"{showComps (StdSpec.comps b)} root={showBool (StdSpec.hasRoot b)}"
    | none => badOp
  | ["derive", h] =>
    match parseHex h with
    | some b => if deriveIsWindows b then "w" else "u"
    | none => badOp
  | "stdhist" :: start :: ops =>
    match parseHex start with
    | some b =>
      match runStdHist b ops with
      | some out => " ".intercalate out
      | none => badOp
    | none => badOp
  | "hist" :: e :: start :: ops =>
    match parseEnc e, parseHex start with
    | some e, some b =>
      match runHist e b ops with
      | some out => " ".intercalate out
      | none => badOp
    | _, _ => badOp
  | _ => badOp

partial def loop (h : IO.FS.Stream) (out : IO.FS.Stream) : IO Unit := do
  let line ← h.getLine
  if line.isEmpty then return ()
  out.putStrLn (step line)
  loop h out

def main : IO Unit := do
  let stdin ← IO.getStdin
  let stdout ← IO.getStdout
  loop stdin stdout
