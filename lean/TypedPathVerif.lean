import TypedPathVerif.Model.Basic
import TypedPathVerif.Model.Parser
import TypedPathVerif.Model.Enc
import TypedPathVerif.Model.Path
