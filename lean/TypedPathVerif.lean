import TypedPathVerif.Model.Basic
import TypedPathVerif.Model.Parser
import TypedPathVerif.Model.Enc
import TypedPathVerif.Model.Path
import TypedPathVerif.Lemmas.Tokens
import TypedPathVerif.Lemmas.Laws
import TypedPathVerif.Lemmas.EncNew
import TypedPathVerif.Props.C03
