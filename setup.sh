#!/bin/sh
# Build the whole framework from files on disk (offline): Lean theorems + driver, both harness builds.
set -e
cd "$(dirname "$0")"
export CARGO_NET_OFFLINE=true
python3 gen/constants.py
[ -f gen/sites.py ] && python3 gen/sites.py
python3 gen/partial.py
python3 gen/api.py
python3 gen/alts.py
python3 gen/dict.py
(cd lean && lake build TypedPathVerif tpdriver)
(cd harness && CARGO_TARGET_DIR="$PWD/target-std" cargo build --release --offline)
(cd harness && CARGO_TARGET_DIR="$PWD/target-nostd" cargo build --release --offline --no-default-features)
echo setup ok
