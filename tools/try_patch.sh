#!/bin/bash
# try_patch.sh <patch.diff> [props...] : apply a patch to /repo, run the given (default: all) quick checks, undo it.
P=$1; shift
PROPS="$@"; [ -z "$PROPS" ] && PROPS="C01 C02 C03 C04 C05 C06 C07 C08 C09 C10 C11 C12 C13 C14 C15 C16 C17 C18 C19 C20"
cd /verif
git -C /repo status --short | grep -q . && { echo "/repo is dirty"; exit 2; }
git -C /repo apply "$P" || { echo "patch does not apply"; exit 2; }
SAVE=$(mktemp -d /tmp/trypatch.XXXXXX); cp -a evidence "$SAVE/evidence"; cp -a replays "$SAVE/replays" 2>/dev/null
trap 'git -C /repo checkout -- .; rm -rf /verif/evidence /verif/replays; cp -a "$SAVE/evidence" /verif/evidence; [ -d "$SAVE/replays" ] && cp -a "$SAVE/replays" /verif/replays; rm -rf "$SAVE"; python3 /verif/gen/constants.py; python3 /verif/gen/sites.py; python3 /verif/gen/partial.py; python3 /verif/gen/api.py; python3 /verif/gen/alts.py' EXIT
for p in $PROPS; do
  out=$(./check $p 2>&1); rc=$?
  echo "$p rc=$rc :: $(echo "$out" | grep -E "^VIOLATION|INTERNAL" | head -1 | cut -c1-150)"
  if [ $rc -eq 1 ]; then f=$(echo "$out" | grep -oE "replay=[^ ]+" | head -1 | cut -d= -f2); [ -n "$f" ] && python3 -c "
import json
j=json.load(open('$f'))
print('   ', (j.get('clause') or ''), '|', j.get('replay'), '|', (j.get('detail') or str(j.get('broken')))[:260])"; fi
done
