#!/usr/bin/env python3
"""validate MANIFEST.json and evidence/*.json against the given schemas (needs python3-vt for jsonschema)"""
import json, glob, sys, jsonschema
m = json.load(open('/verif/MANIFEST.json'))
jsonschema.validate(m, json.load(open('/root/.vp/MANIFEST.schema.json')))
es = json.load(open('/root/.vp/EVIDENCE.schema.json'))
bad = 0
for f in sorted(glob.glob('/verif/evidence/*.json')):
    try:
        jsonschema.validate(json.load(open(f)), es)
    except Exception as e:
        bad += 1
        print(f, 'INVALID', str(e)[:300])
print('manifest ok;', len(glob.glob('/verif/evidence/*.json')), 'evidence files,', bad, 'invalid')
sys.exit(1 if bad else 0)
