#!/bin/bash
# try_seed.sh <name> <prop> [<prop>...] : apply /verif/seeded/<name>/patch.diff to /repo, run the
# given checks, undo the change straight afterwards.  Prints one line per check.
N=$1; shift
cd /verif
git -C /repo status --short | grep -q . && { echo "/repo is dirty"; exit 2; }
git -C /repo apply /verif/seeded/$N/patch.diff || { echo "patch does not apply"; exit 2; }
# evidence / replays written while the seed is applied must not survive: keep copies, restore on exit
SAVE=$(mktemp -d /tmp/tryseed.XXXXXX); cp -a evidence "$SAVE/evidence"; cp -a replays "$SAVE/replays" 2>/dev/null
trap 'git -C /repo checkout -- .; for g in constants sites partial api alts; do python3 /verif/gen/$g.py; done; rm -rf /verif/evidence /verif/replays; cp -a "$SAVE/evidence" /verif/evidence; [ -d "$SAVE/replays" ] && cp -a "$SAVE/replays" /verif/replays; rm -rf "$SAVE"' EXIT
for p in "$@"; do
  out=$(./check $p 2>&1); rc=$?
  echo "$p rc=$rc :: $(echo "$out" | grep -E "^VIOLATION|INTERNAL" | head -2 | tr '\n' ' ') $(echo "$out" | grep -E "^C[0-9]+ tier" | sed 's/.*theorems/theorems/')"
  if [ $rc -eq 1 ]; then f=$(echo "$out" | grep -oE "replay=[^ ]+" | head -1 | cut -d= -f2); [ -n "$f" ] && python3 -c "
import json,sys
j=json.load(open('$f'))
print('   clause:', j.get('clause'), '| replay:', j.get('replay'), '|', (j.get('detail') or str(j.get('broken')))[:200])"; fi
done
