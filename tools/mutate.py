#!/usr/bin/env python3
"""mutate.py — a small mutation campaign against the checks (NOT part of the registered checks).

  mutate.py list                       enumerate candidate mutants of /repo/src (non-test code) -> /tmp/mut/cands.json
  mutate.py filter [N]                 in N parallel scratch worktrees: keep the mutants that compile and pass
                                       `cargo test --offline` (unit + doc)  -> /tmp/mut/survivors.json
  mutate.py check                      for every survivor: apply it to the scratch repo of the scratch copy of /verif
                                       (/tmp/mut/verif with its harness pointing at /tmp/mut/repo), run all quick
                                       checks in parallel, record which properties flag it -> /tmp/mut/results.json

Everything happens under /tmp/mut; /repo and /verif are only read.  Mutation operators are
syntactic and line-local; equivalent mutants are possible and have to be triaged by hand.
"""
import json
import os
import re
import subprocess
import sys
from concurrent.futures import ThreadPoolExecutor

REPO = "/repo"
MUT = "/tmp/mut"
PROPS = ["C%02d" % i for i in range(1, 21)]

OPS = [
    ("eq->ne", r"(?<![=!<>])==(?!=)", "!="),
    ("ne->eq", r"!=(?!=)", "=="),
    ("lt->le", r"(?<=[\w\)\]] )<(?= [\w\(])", "<="),
    ("gt->ge", r"(?<=[\w\)\]] )>(?= [\w\(])", ">="),
    ("le->lt", r"(?<=[\w\)\]] )<=(?= [\w\(])", "<"),
    ("ge->gt", r"(?<=[\w\)\]] )>=(?= [\w\(])", ">"),
    ("and->or", r"&&", "||"),
    ("or->and", r"\|\|", "&&"),
    ("plus1->plus0", r"\+ 1\b", "+ 0"),
    ("plus1->plus2", r"\+ 1\b", "+ 2"),
    ("minus1->minus0", r"- 1\b", "- 0"),
    ("true->false", r"\btrue\b", "false"),
    ("false->true", r"\bfalse\b", "true"),
    ("drop-not", r"(?<![\w\)])!(?=[a-zA-Z_\(])", ""),
    ("next->next_back", r"\.next\(\)", ".next_back()"),
    ("next_back->next", r"\.next_back\(\)", ".next()"),
    ("bslash->slash", r"b'\\\\'", "b'/'"),
    ("slash->bslash", r"b'/'", "b'\\\\'"),
    ("sep->altsep", r"\bSEPARATOR\b", "ALT_SEPARATOR"),
    ("altsep->sep", r"\bALT_SEPARATOR\b", "SEPARATOR"),
    ("is_some->is_none", r"\.is_some\(\)", ".is_none()"),
    ("is_ok->is_err", r"\.is_ok\(\)", ".is_err()"),
    ("is_err->is_ok", r"\.is_err\(\)", ".is_ok()"),
    ("is_empty->not", r"(\b[\w\.]+)\.is_empty\(\)", r"!\1.is_empty()"),
    ("Some->None-arm", r"\bis_normal\(\)", "is_current()"),
    ("is_parent->is_normal", r"\bis_parent\(\)", "is_normal()"),
    ("is_root->false", r"\.is_root\(\)", ".is_parent()"),
    ("first->last", r"\.first\(\)", ".last()"),
    ("last->first", r"\.last\(\)", ".first()"),
    ("starts->ends", r"\.starts_with\(", ".ends_with("),
    ("ends->starts", r"\.ends_with\(", ".starts_with("),
    ("len-0", r"\.len\(\) == 0", ".len() == 1"),
    ("zero->one", r"\b0\b(?!\.)", "1"),
    ("one->zero", r"(?<![\w\.])1\b(?!\.)", "0"),
    ("two->one", r"(?<![\w\.])2\b(?!\.)", "1"),
]


def sh(cmd, cwd=None, timeout=None, env=None):
    p = subprocess.run(cmd, shell=True, cwd=cwd, stdout=subprocess.PIPE, stderr=subprocess.STDOUT, timeout=timeout, env=env)
    return p.returncode, p.stdout.decode(errors="replace")


def non_test_region(lines):
    """indices of lines that are neither comments nor inside a #[cfg(test)] module"""
    out = []
    cut = len(lines)
    for i, l in enumerate(lines):
        if l.strip().startswith("#[cfg(test)]"):
            # the rest of the file is the test module in this crate's layout
            nxt = "".join(lines[i:i + 3])
            if "mod tests" in nxt or "mod test" in nxt:
                cut = i
                break
    for i in range(cut):
        s = lines[i].strip()
        if not s or s.startswith("//") or s.startswith("#[") or s.startswith("#!["):
            continue
        out.append(i)
    return out


def strip_line_comment(l):
    k = l.find("//")
    return l if k < 0 else l[:k]


def cmd_list():
    cands = []
    for root, dirs, files in os.walk(os.path.join(REPO, "src")):
        dirs.sort()
        for fn in sorted(files):
            if not fn.endswith(".rs"):
                continue
            path = os.path.join(root, fn)
            rel = os.path.relpath(path, REPO)
            lines = open(path, encoding="utf-8").read().split("\n")
            for i in non_test_region(lines):
                code = strip_line_comment(lines[i])
                # skip lines that are only attribute/macros of docs, `use`, or string-only
                if code.strip().startswith(("use ", "pub use ", "mod ", "pub mod ")):
                    continue
                for name, pat, rep in OPS:
                    for m in re.finditer(pat, code):
                        # do not touch string / char literals except the byte-char operators
                        before = code[:m.start()]
                        if before.count('"') % 2 == 1:
                            continue
                        new = code[:m.start()] + m.expand(rep) + code[m.end():] + lines[i][len(code):]
                        if new == lines[i]:
                            continue
                        cands.append({"file": rel, "line": i + 1, "op": name, "old": lines[i], "new": new})
    os.makedirs(MUT, exist_ok=True)
    # one mutant per (file, line, op, occurrence); cap the very noisy numeric operators
    json.dump(cands, open(os.path.join(MUT, "cands.json"), "w"), indent=0)
    by = {}
    for c in cands:
        by[c["op"]] = by.get(c["op"], 0) + 1
    print(len(cands), "candidates", by)


def apply(wt, c):
    p = os.path.join(wt, c["file"])
    lines = open(p, encoding="utf-8").read().split("\n")
    assert lines[c["line"] - 1] == c["old"], (c, lines[c["line"] - 1])
    lines[c["line"] - 1] = c["new"]
    open(p, "w", encoding="utf-8").write("\n".join(lines))


def cmd_filter(n):
    cands = json.load(open(os.path.join(MUT, "cands.json")))
    sel = os.environ.get("MUT_SELECT")
    if sel:
        cands = [c for c in cands if re.search(sel, c["file"])]
    wts = []
    for k in range(n):
        wt = os.path.join(MUT, "wt%d" % k)
        if not os.path.exists(wt):
            rc, out = sh(f"git -C {REPO} worktree add -q --detach {wt} HEAD")
            if rc:
                print(out)
                sys.exit(2)
        wts.append(wt)
    env = dict(os.environ, CARGO_NET_OFFLINE="true")
    survivors = []
    done_path = os.path.join(MUT, "filter_done.json")
    done = json.load(open(done_path)) if os.path.exists(done_path) else {}

    def key(c):
        return f'{c["file"]}:{c["line"]}:{c["op"]}:{c["new"]}'

    def work(args):
        k, chunk = args
        wt = wts[k]
        res = []
        for c in chunk:
            kk = key(c)
            if kk in done:
                res.append((c, done[kk]))
                continue
            sh(f"git -C {wt} checkout -q -- .")
            try:
                apply(wt, c)
            except AssertionError:
                res.append((c, "stale"))
                continue
            rc, out = sh("cargo build --offline --quiet 2>&1 | tail -3", cwd=wt, env=env, timeout=600)
            rc, out = sh("cargo test --offline --quiet --lib 2>&1 | tail -5", cwd=wt, env=env, timeout=900)
            if "error" in out and "test result" not in out:
                verdict = "nocompile"
            elif "test result: ok" not in out:
                verdict = "killed-by-unit-tests"
            else:
                rc, out = sh("cargo test --offline --quiet --doc 2>&1 | tail -5", cwd=wt, env=env, timeout=1800)
                verdict = "survivor" if "test result: ok" in out else "killed-by-doc-tests"
            res.append((c, verdict))
            done[kk] = verdict
        sh(f"git -C {wt} checkout -q -- .")
        return res

    chunks = [(k, cands[k::n]) for k in range(n)]
    with ThreadPoolExecutor(max_workers=n) as ex:
        allres = [r for part in ex.map(work, chunks) for r in part]
    json.dump(done, open(done_path, "w"))
    tally = {}
    for c, v in allres:
        tally[v] = tally.get(v, 0) + 1
        if v == "survivor":
            survivors.append(c)
    json.dump(survivors, open(os.path.join(MUT, "survivors.json"), "w"), indent=0)
    print(tally)


def cmd_check():
    survivors = json.load(open(os.path.join(MUT, "survivors.json")))
    vr = os.path.join(MUT, "verif")
    rp = os.path.join(MUT, "repo")
    if not os.path.exists(rp):
        sh(f"git -C {REPO} worktree add -q --detach {rp} HEAD")
    if not os.path.exists(vr):
        sh(f"cp -a /verif {vr}")
        sh(f"sed -i 's#path = \"/repo\"#path = \"{rp}\"#' {vr}/harness/Cargo.toml")
        sh(f"rm -rf {vr}/harness/target-std {vr}/harness/target-nostd")
    env = dict(os.environ, VERIF_REPO=rp, CARGO_NET_OFFLINE="true")
    res_path = os.path.join(MUT, "results.json")
    results = json.load(open(res_path)) if os.path.exists(res_path) else {}
    for idx, c in enumerate(survivors):
        kk = f'{c["file"]}:{c["line"]}:{c["op"]}:{c["new"]}'
        if kk in results:
            continue
        sh(f"git -C {rp} checkout -q -- .")
        apply(rp, c)
        # build once, then all checks in parallel
        sh("cargo build --release --offline", cwd=os.path.join(vr, "harness"),
           env=dict(env, CARGO_TARGET_DIR=os.path.join(vr, "harness", "target-std")))

        def one(p):
            rc, out = sh(f"./check {p}", cwd=vr, env=env, timeout=1200)
            v = [l for l in out.splitlines() if l.startswith("VIOLATION") or l.startswith("INTERNAL")]
            return p, rc, (v[0] if v else "")

        with ThreadPoolExecutor(max_workers=10) as ex:
            rs = list(ex.map(one, PROPS))
        flagged = [p for p, rc, v in rs if rc == 1 and "no-failing-input-found" not in v]
        nfi = [p for p, rc, v in rs if rc == 1 and "no-failing-input-found" in v]
        internal = [p for p, rc, v in rs if rc not in (0, 1)]
        results[kk] = {"cand": c, "flagged": flagged, "nfi": nfi, "internal": internal}
        json.dump(results, open(res_path, "w"), indent=0)
        print(idx, c["file"], c["line"], c["op"], "->", flagged, "nfi", nfi, "internal", internal, flush=True)
    sh(f"git -C {rp} checkout -q -- .")
    und = [k for k, v in results.items() if not v["flagged"] and not v["nfi"]]
    print("undetected:", len(und))
    for k in und:
        print("  ", k[:200])


if __name__ == "__main__":
    a = sys.argv[1:]
    if not a:
        print(__doc__)
    elif a[0] == "list":
        cmd_list()
    elif a[0] == "filter":
        cmd_filter(int(a[1]) if len(a) > 1 else 4)
    elif a[0] == "check":
        cmd_check()
