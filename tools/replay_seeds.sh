#!/bin/bash
# replay_seeds.sh [name-glob] : regression test of the CHECKS.  For every seeded change under seeded/ (or those
# matching the glob): apply its patch to /repo, run the quick check of the property it breaks, undo the patch,
# and report whether the check flagged it (exit 1 with a VIOLATION line).  /repo must be clean; evidence and
# replays are restored afterwards.  Prints one line per seed and a summary; exit 1 if any seed went unnoticed.
cd /verif
PAT=${1:-*}
git -C /repo status --short | grep -q . && { echo "/repo is dirty"; exit 2; }
SAVE=$(mktemp -d /tmp/replayseeds.XXXXXX); cp -a evidence "$SAVE/evidence"; cp -a replays "$SAVE/replays" 2>/dev/null
trap 'git -C /repo checkout -- .; rm -rf /verif/evidence /verif/replays; cp -a "$SAVE/evidence" /verif/evidence; [ -d "$SAVE/replays" ] && cp -a "$SAVE/replays" /verif/replays; rm -rf "$SAVE"; for g in constants sites partial api alts; do python3 /verif/gen/$g.py; done' EXIT
miss=0; n=0
for d in seeded/$PAT/; do
  name=$(basename "$d")
  [ -f "$d/patch.diff" ] && [ -f "$d/meta.json" ] || continue
  prop=$(python3 -c "import json;print(json.load(open('$d/meta.json'))['breaks_property'])")
  also=$(python3 -c "import json;m=json.load(open('$d/meta.json'));print(' '.join(p for p in m.get('detected_by',[]) if p!=m['breaks_property']))")
  git -C /repo apply "/verif/${d}patch.diff" 2>/dev/null || { echo "$name: patch does not apply"; continue; }
  tier=$(python3 -c "import json;print(json.load(open('$d/meta.json')).get('tier','quick'))")
  out=$(./check $prop --tier $tier 2>&1); rc=$?
  v=$(echo "$out" | grep -E "^VIOLATION" | head -1)
  git -C /repo checkout -- .
  n=$((n+1))
  if [ $rc -eq 1 ] && [ -n "$v" ]; then
    case "$v" in *no-failing-input-found*) kind="nfi";; *) kind="input";; esac
    echo "$name $prop flagged ($kind)"
  else
    # designed that way for a few seeds (the input class lies outside the property's quantifier): the
    # properties recorded as detecting it must do so
    got=""
    if [ -n "$also" ]; then
      git -C /repo apply "/verif/${d}patch.diff" 2>/dev/null
      for q in $also; do
        o2=$(./check $q 2>&1); r2=$?
        if [ $r2 -eq 1 ] && echo "$o2" | grep -q "^VIOLATION"; then got="$got $q"; fi
      done
      git -C /repo checkout -- .
    fi
    if [ -n "$got" ]; then echo "$name $prop silent by design; flagged by$got"; else echo "$name $prop NOT FLAGGED (rc=$rc)"; miss=$((miss+1)); fi
  fi
done
echo "== $n seeds replayed, $miss not flagged by the check of the property they break"
[ $miss -eq 0 ]
