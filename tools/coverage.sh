#!/bin/bash
# coverage.sh [quick|thorough] : which functions of /repo/src does the harness never EXECUTE?
#
# Builds the harness with `-C instrument-coverage` (nightly toolchain: its llvm-tools match its rustc),
# runs every property's oracle and op stream once, merges the profiles and lists every function
# definition of /repo/src (all generic instantiations together) whose execution count is zero, into
# work/unexecuted.txt.  gen/api.py only knows which method NAMES the harness calls; this is the measured
# version.  Needs no network.  Exit 0 always; prints the count.
set -u
TIER=${1:-quick}
ROOT=$(cd "$(dirname "$0")/.." && pwd)
cd "$ROOT"
T=$(ls -d /root/.rustup/toolchains/nightly-x86_64-unknown-linux-gnu/lib/rustlib/*/bin 2>/dev/null | head -1)
if [ -z "$T" ] || [ ! -x "$T/llvm-cov" ]; then echo "coverage: no nightly llvm-tools; skipped"; exit 0; fi
COV=$ROOT/harness/target-cov
mkdir -p $COV/prof && rm -f $COV/prof/*.profraw
(cd harness && CARGO_NET_OFFLINE=true RUSTFLAGS="-Cinstrument-coverage" CARGO_TARGET_DIR=$COV cargo +nightly build --release --offline 2>&1 | tail -1)
B=$COV/release/tpharness
[ -x $B ] || { echo "coverage: instrumented build failed; skipped"; exit 0; }
export VERIF_DICT=$ROOT/work/dict.txt
python3 gen/dict.py
one() {
  p=$1; k=$2
  if [ $k = o ]; then LLVM_PROFILE_FILE=$COV/prof/o-$p.profraw $B oracle $p $TIER 1 > /dev/null 2>&1
  else LLVM_PROFILE_FILE=$COV/prof/g-$p.profraw $B gen $p $TIER 1 2>/dev/null | LLVM_PROFILE_FILE=$COV/prof/r-$p.profraw $B run > /dev/null 2>&1; fi
}
export -f one; export B COV TIER
for p in C01 C02 C03 C04 C05 C06 C07 C08 C09 C10 C11 C12 C13 C14 C15 C16 C17 C18 C19 C20; do echo "$p o"; echo "$p r"; done | xargs -P 16 -L 1 bash -c 'one $0 $1'
$T/llvm-profdata merge -sparse $COV/prof/*.profraw -o $COV/all.profdata
$T/llvm-cov export $B -instr-profile=$COV/all.profdata -format=text --ignore-filename-regex='(harness/src|registry|rustc|rustlib)' > $COV/cov.json 2>/dev/null
ROOT=$ROOT python3 - <<'EOF'
import json, collections, os
ROOT = os.environ['ROOT']
j = json.load(open(ROOT + '/harness/target-cov/cov.json'))
by = collections.defaultdict(int)
for f in j['data'][0]['functions']:
    files = [x for x in f['filenames'] if x.startswith('/repo/src')]
    if not files:
        continue
    by[(files[0], f['regions'][0][0])] += f['count']
zero = sorted(k for k, v in by.items() if v == 0)
out = []
for file, line in zero:
    src = open(file).read().splitlines()
    out.append("%s:%d  %s" % (file.replace('/repo/src/', ''), line, src[line - 1].strip()[:100]))
open(ROOT + '/work/unexecuted.txt', 'w').write("\n".join(out) + ("\n" if out else ""))
print("coverage: %d function definitions of /repo/src, %d never executed (work/unexecuted.txt)" % (len(by), len(zero)))
EOF
rm -rf $COV/prof
