#!/usr/bin/env python3
"""mkmeta.py <name> <property> <needs> <detected-by (comma list)> <note>  -> seeded/<name>/meta.json"""
import json, sys, os
name, prop, needs, detected, note = sys.argv[1:6]
d = os.path.join('/verif/seeded', name)
confirm = open(os.path.join(d, 'confirm.txt')).read().strip().splitlines() if os.path.exists(os.path.join(d, 'confirm.txt')) else []
json.dump({
    "name": name,
    "breaks_property": prop,
    "needs_to_manifest": needs,
    "source": "fresh sub-agent given only the property text and a scratch worktree of /repo",
    "confirmed": {"ran": "tools/confirm_seed.sh %s  (cargo test --offline with the change; demo as tests/demo.rs with and without the change)" % name, "results": confirm},
    "checks_run": "tools/try_seed.sh %s ...  (git -C /repo apply; ./check <prop>; git -C /repo checkout -- .)" % name,
    "detected_by": [x for x in detected.split(',') if x],
    "note": note,
}, open(os.path.join(d, 'meta.json'), 'w'), indent=1)
