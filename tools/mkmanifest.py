#!/usr/bin/env python3
"""Single source of truth for props.json and MANIFEST.json (run after editing PROPS below)."""
import json
import os

ROOT = os.path.dirname(os.path.dirname(os.path.abspath(__file__)))

TB_COMMON = [
    "Lean 4.33.0 kernel (thorough tier: re-checked with leanchecker)",
    "correspondence check: Rust harness (harness/src/ops.rs), Lean driver (lean/Driver.lean), canonical text format, generators (harness/src/gen.rs); the Lean compiler/runtime evaluating the model",
    "gen/constants.py (regular-expression extraction of the constant tables and matches! arms from /repo)",
    "modelled, not verified: Rust slice/Vec/String primitives, #[derive(PartialEq, Ord, Hash)] layout, all `unsafe` (repr(transparent) casts, from_utf8_unchecked)",
]

# id -> description of the check.  `theorems` are fully qualified Lean names proved in
# lean/TypedPathVerif/Props/<id>.lean (or the listed modules); `level` is what the evidence
# file claims, lowered automatically by nothing: keep it honest by hand.
PROPS = {}


def P(pid, level, technique, text, note, theorems=(), modules=(), rule="", explanation="", design_ref="", extra_tb=(), assumptions=()):
    PROPS[pid] = {
        "level": level,
        "technique": technique,
        "level_text": text,
        "level_note": note,
        "theorems": list(theorems),
        "modules": list(modules),
        "rule": rule,
        "explanation": explanation,
        "design_ref": design_ref,
        "trusted_base": TB_COMMON + list(extra_tb),
        "assumptions": list(assumptions),
    }


NONTRIV = "bounded-exhaustive strings over small alphabets by increasing length + seeded structured random paths (harness/src/util.rs, gen.rs); "

exec(open(os.path.join(ROOT, "tools", "props_data.py")).read())

# every operation-level property: the other families' copies of its operations are compared with the byte family
FAM_NOTE = (" The UTF-8, typed and UTF-8 typed copies (borrowed and owned) of this property's operations are compared with "
            "the byte family on a slice of its own domains after the oracle (clause families-agree): that the copies delegate "
            "is validated by that comparison, not proved.")
for _pid in ("C01", "C02", "C03", "C04", "C06", "C07", "C08", "C09", "C10", "C11", "C12", "C13", "C16"):
    PROPS[_pid]["level_note"] += FAM_NOTE


def main():
    props_out = {k: v for k, v in sorted(PROPS.items())}
    json.dump(props_out, open(os.path.join(ROOT, "props.json"), "w"), indent=1)
    checks = []
    for pid, v in sorted(PROPS.items()):
        checks.append({
            "property_id": pid,
            "quick_cmd": f"./check {pid} --tier quick",
            "thorough_cmd": f"./check {pid} --tier thorough",
            "evidence_file": f"/verif/evidence/{pid}.json",
            "replay_cmd_template": f"./check {pid} --replay {{path}}",
            "engine": "lean-proof+correspondence",
            "level_claimed": {"category": v["level"], "text": v["level_text"], "design_ref": v["design_ref"]},
            "level_note": v["level_note"],
            "technique": v["technique"],
        })
    manifest = {
        "version": 1,
        "setup_cmd": "./setup.sh",
        "hooks": {
            "guard": "typed_path_verif",
            "enable": "none needed: every observation goes through the crate's public API (a `--cfg typed_path_verif` guard is reserved and unused)",
            "baseline_off_cmd": "cd /repo && cargo test --workspace --no-fail-fast --offline",
            "source_commits": [],
            "add_only": True,
        },
        "engines": [
            {"name": "lean-proof+correspondence", "path": "/verif/check",
             "serves_properties": sorted(PROPS.keys()),
             "kind_free_text": "Lean 4 theorems about a hand-written executable model (lean/TypedPathVerif), tied to /repo on every run by a differential correspondence check (Rust harness vs compiled Lean driver over the same op lines) and by tables regenerated from the source; a per-property oracle on the implementation searches for the failing input when either breaks"},
        ],
        "checks": checks,
        "notes": "fix: commits in /repo (9) and known findings are listed in known_findings.txt; DESIGN.md explains the approach, the trusted base and which seeded changes each check catches.",
        "not_applicable": [],
    }
    json.dump(manifest, open(os.path.join(ROOT, "MANIFEST.json"), "w"), indent=1)


if __name__ == "__main__":
    main()
