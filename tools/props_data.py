# Data for tools/mkmanifest.py — one P(...) per property.  Edited as theorems land.
# (exec'd inside mkmanifest.py: P, NONTRIV are in scope)

TV_NOTE = ("Assumes the harness, the driver's parsing/printing and the generators are right; bounded + random "
           "inputs only for the tie between model and code. ")

P("C01", "proof", "Lean 4 refinement theorems (model = StdSpec, all interleavings) + model/code and StdSpec/std correspondence",
  "Proved in Lean, for every byte string and every sequence of front/back steps: the model's forward components equal "
  "StdSpec.comps (unix_front_all), every interleaving returns what std's double-ended iterator returns "
  "(unix_interleave), after every step the remaining bytes re-parse to std's untouched middle (unix_remainder), and "
  "has_root / is_absolute equal std's (unix_has_root). StdSpec (12 lines, split on '/') is compared with real std::path "
  "on every run, and the model with the crate on all interleavings up to a bound.",
  "Theorems are about the token-level model and the declarative StdSpec; model=code and StdSpec=std are validated by "
  "differential testing on bounded-exhaustive + random inputs, not proved. std::path of the pinned toolchain is the reference.",
  theorems=["TP.C01.unix_front_all", "TP.C01.unix_interleave", "TP.C01.unix_remainder", "TP.C01.unix_has_root",
            "TP.C01.unix_parser_alts_covered", "TP.C01.common_parser_alts_covered"],
  modules=["TypedPathVerif.Props.C01b"],
  rule=NONTRIV + "non-trivial = at least two components; distinct by (input, mask)", design_ref="§5 C01")

P("C02", "proof", "Lean 4 theorems (decomposition after the prefix = split-based grammar; prefix unique/first/raw; drive letter; all queries) + model/code correspondence; prefix kind/payload classification by grammar oracle",
  "Proved in Lean for every byte string: the components are the parsed prefix (if any) followed by "
  "WinGrammar.bodySpec of the remaining bytes — optional root, split on `\\` and, unless the path starts with exactly "
  "`\\\\?\\`, on `/`; `.` kept only at the start of the path unless verbatim; repeated and trailing separators produce "
  "nothing (win_decomp, via compsT_eq_bodySpec for an arbitrary separator set); at most one prefix and only first "
  "(win_prefix_unique_first); its raw text is the leading bytes and prefix_len its length (win_prefix_raw); a disk or "
  "verbatim-disk drive letter is an upper-case ASCII letter (win_drive_ascii_upper); the kind sets tested by the "
  "prefix-kind queries, extracted from the matches! arms of the source on every run, are the documented ones "
  "(kind_sets_eq, by decide); prefix / has_prefix / has_any_verbatim_prefix / implicit root / physical root / root / "
  "absoluteness are the obvious functions of the decomposition (win_queries).",
  "Prefix classification: exact declarative characterisations of when the disk, verbatim-disk and device-namespace "
  "kinds are produced, with payload and what follows (C02b.disk_iff, verbatim_disk_iff, device_ns_iff); the header "
  "every kind requires (C02b.kind_header); the not(...) guards of prefix_verbatim are redundant where it is called "
  "(prefixVerbatim_guards_redundant). "
  "Exact conditions also for UNC and verbatim-UNC prefixes with a share and verbatim prefixes with a name other than "
  "`UNC` (Win.unc_complete_iff, Win.verbatim_unc_complete_iff, Win.verbatim_named_iff). "
  "The near-misses too (Props/C02c): exact conditions for the four incomplete results — `\\\\?\\` followed by a "
  "separator is Verbatim(\"\") (verbatim_empty_iff), `\\\\?\\UNC` with no server is Verbatim(\"UNC\") (verbatim_UNC_name_iff), "
  "`\\\\server` with no share is UNC(server, \"\") with the one separator consumed, server `?` / `.` included exactly "
  "when the verbatim / device alternatives cannot apply (unc_noshare_iff), `\\\\?\\UNC\\server` with no share "
  "(verbatim_unc_noshare_iff) — that every result is complete or one of these four (prefix_result_classified), and "
  "that there is NO prefix exactly when the input neither starts with `letter:` nor with two separators and a "
  "non-separator byte (prefix_none_iff). With the complete kinds this characterises every outcome of the prefix parser "
  "by the shape of the input. "
  "The harness's independent grammar (spec.rs win_prefix, DESIGN A.2) is still compared with the implementation on "
  "the near-miss domain (11-letter alphabet, all 256 drive bytes, 21 prefix seeds x tails) on every run. Model=code by "
  "differential testing. 'On every host platform': only a Linux host can be built here.",
  theorems=["TP.C02.win_decomp", "TP.C02.win_prefix_unique_first", "TP.C02.win_prefix_raw", "TP.C02.win_drive_ascii_upper",
            "TP.C02.kind_sets_eq", "TP.C02.win_queries", "TP.C02.compsT_eq_bodySpec",
            "TP.C02b.disk_iff", "TP.C02b.verbatim_disk_iff", "TP.C02b.device_ns_iff", "TP.C02b.kind_header",
            "TP.C02b.prefixVerbatim_guards_redundant", "TP.C02b.takeNormal_iff",
            "TP.Win.unc_complete_iff", "TP.Win.verbatim_unc_complete_iff", "TP.Win.verbatim_named_iff", "TP.Win.parsePrefix_alts",
            "TP.C02c.verbatim_empty_iff", "TP.C02c.verbatim_UNC_name_iff", "TP.C02c.unc_noshare_iff", "TP.C02c.verbatim_unc_noshare_iff",
            "TP.C02c.prefix_result_classified", "TP.C02c.prefix_none_iff",
            "TP.Win.stable_verbatimUNC_noshare_sep", "TP.Win.stable_unc_noshare_sep", "TP.Win.kind_sets_read", "TP.C02e.windows_parser_alts_covered"],
  modules=["TypedPathVerif.Props.C02b", "TypedPathVerif.Lemmas.WinStable", "TypedPathVerif.Props.C02c", "TypedPathVerif.Props.C02d", "TypedPathVerif.Props.C02e", "TypedPathVerif.Props.C02f"],
  rule=NONTRIV + "non-trivial = prefix or at least two components", design_ref="§5 C02")

P("C03", "proof", "Lean 4 theorems (induction over tokens and over the step list) + model/code correspondence",
  "Proved in Lean for the model, for every byte string, both encodings and every sequence of front/back steps: back "
  "iteration is the reverse of front iteration (dei_reverse), every interleaving returns step by step what taking from "
  "the corresponding end of the forward list returns and leaves the untouched middle (dei_interleave), at most |comps| "
  "steps succeed and exhaustion is permanent (dei_exhaust, dei_stays_exhausted), and the input is prefix text + tokens "
  "whose name tokens are exactly the normal components in order (dei_conservation). The model is tied to the code by "
  "the correspondence check on every run (all interleavings up to a bound, both encodings).",
  "Theorems are about the token-level model; that the Rust parsers behave like the model is validated by differential "
  "testing (bounded-exhaustive + random), not proved. UTF-8 / typed / byte-slice iterator wrappers are covered by the "
  "oracle (implementation vs implementation), not by a theorem.",
  theorems=["TP.C03.dei_reverse", "TP.C03.dei_interleave", "TP.C03.dei_exhaust", "TP.C03.dei_stays_exhausted", "TP.C03.dei_conservation",
            "TP.C01.unix_parser_alts_covered", "TP.C02e.windows_parser_alts_covered"],
  modules=["TypedPathVerif.Props.C01b", "TypedPathVerif.Props.C02e"],
  rule=NONTRIV + "non-trivial = at least two components; distinct by (encoding, input, mask)", design_ref="§5 C03")

P("C04", "proof", "Lean 4 theorems (acceptance rule, first-offender error, append lemma for Unix and prefix-free Windows bases) + model/code correspondence; keeps-base for prefixed Windows bases by oracle (known finding K3)",
  "Proved in Lean for both encodings: the checked push succeeds exactly when the argument has no prefix, no root, no "
  "invalid name and no `..` outnumbering the names before it, stated with counts over every initial segment "
  "(checked_accepts_iff, scan_none_iff, neverClimbs_iff_counts), and then equals the unchecked join "
  "(checked_ok_eq_push); an error names the first offending component, everything before it being acceptable "
  "(checked_error_first). For Unix the result's components are exactly the base's followed by the argument's minus a "
  "leading `.`, and the added components never climb (unix_checked_keeps_base, unix_checked_empty_base). "
  "For Windows the same keeps-base statement is proved for every non-empty prefix-free base, i.e. one that does not "
  "start with two separators or `X:` (win_checked_keeps_base_pf). For Windows bases WITH a complete non-verbatim prefix (disk, device namespace, UNC with share) the keeps-base statement is proved too, the implicit root of a bare device-namespace / UNC prefix written out, and the result is again well-formed (C04b.win_checked_keeps_base_prefixed); an accepted argument never starts like a prefix or with a separator (C04b.accepted_prefix_free). For bases with a complete VERBATIM prefix (followed by nothing or a separator) a successful checked push yields the base's components followed by the names that survive the argument's own `..` cancellations, root after the prefix written out, same prefix (C08c.win_checked_keeps_base_verbatim): nothing of the base is consumed.",
  "Partial: the keeps-base clause for Windows bases WITH a prefix is not proved — it is false for bases that start "
  "with two separators, known finding K3 (proved as windows_K3_witness) — the oracle decides it on every run with K3 "
  "set aside by a narrow class predicate. 'Failure leaves the base unchanged' is by construction in the model (no buffer is "
  "returned on error) and is checked on the implementation by the correspondence (MUTATED flag). Model=code by "
  "differential testing; byte/UTF-8/typed forms agree: oracle.",
  theorems=["TP.C04.neverClimbs_iff_counts", "TP.C04.scan_none_iff", "TP.C04.checked_accepts_iff", "TP.C04.checked_ok_eq_push",
            "TP.C04.checked_error_first", "TP.C04.unix_checked_keeps_base", "TP.C04.unix_checked_empty_base", "TP.C04.windows_K3_witness",
            "TP.unix_push_comps", "TP.C04c.win_checked_keeps_base_pf",
            "TP.C04b.accepted_prefix_free", "TP.C04b.win_checked_keeps_base_prefixed", "TP.Win.win_push_comps_prefixed",
            "TP.C04c.win_checked_keeps_base_verbatim", "TP.C04c.fold_neverClimbs",
            "TP.C04d.win_checked_keeps_base_verbatim_of_stable", "TP.C04d.win_checked_keeps_base_noshare"],
  modules=["TypedPathVerif.Lemmas.Append", "TypedPathVerif.Props.C16b", "TypedPathVerif.Props.C04b", "TypedPathVerif.Props.C08c", "TypedPathVerif.Props.C04c", "TypedPathVerif.Props.C04d"],
  rule=NONTRIV + "non-trivial = argument has >= 2 components or is rejected", design_ref="§5 C04")

P("C05", "proof", "Lean 4 theorems (lexicographic total-order laws, eq iff components, the hash index loop = its component-level description) + model/code correspondence incl. exact hasher input",
  "Proved in Lean for both encodings and all byte strings: two paths are equal iff their component lists are equal with "
  "the prefix compared by parsed kind (eq_iff_comps); ordering is the lexicographic order on components built from "
  "the derived orders (cmp_lexicographic), it is a total order — antisymmetric, transitive, Equal a congruence "
  "(cmp_total_order, cmp_transitive) — and says Equal exactly for equal paths (cmp_equal_iff_eq); the model of the Rust "
  "hash loop (the `for i in 0..len` loop with component_start, the skipped `.` after a separator, the final slice and "
  "write_usize) writes exactly hashSpec — the derived hash of the parsed prefix, the text of every component except "
  "prefix and root, the byte count (C05b.hash_loop_eq_spec, via HashLoop.hashBody_toks) — so equal paths feed the "
  "identical sequence of write calls to any hasher (eq_implies_same_hash, C05b.eq_implies_same_loop_hash). The loop's "
  "indices are in range (C18.hash_index_in_range). hashSpec and the loop model are both compared with the recorded "
  "Hasher::write calls of the implementation on every run.",
  "The layout of #[derive(Hash)] / #[derive(Ord)] for the pinned rustc is reproduced in the model (trusted, and "
  "diffed against the recorded chunks). Owned / UTF-8 / typed / mixed-type impls (every impl_cmp! / impl_cmp_bytes! "
  "pair in both operand orders) and HashSet/BTreeSet lookups: oracle (implementation vs implementation). Model=code by "
  "differential testing.",
  theorems=["TP.C05.cmp_pairs_covered", "TP.C05.eq_iff_comps", "TP.C05.cmp_lexicographic", "TP.C05.cmp_total_order", "TP.C05.cmp_transitive",
            "TP.C05.cmp_equal_iff_eq", "TP.C05.eq_implies_same_hash", "TP.isOrd_lexCmp",
            "TP.C05b.hash_loop_eq_spec", "TP.C05b.eq_implies_same_loop_hash", "TP.HashLoop.hashBody_toks",
            "TP.HashLoop.hashBody_eq_go"],
  modules=["TypedPathVerif.Lemmas.Order", "TypedPathVerif.Props.C05b"],
  rule=NONTRIV + "pairs: each path with its re-spellings and random others; non-trivial = equal but differently spelled, or >= 2 components", design_ref="§5 C05")

P("C06", "proof", "Lean 4 refinement theorems (Unix queries = StdSpec) + model/code and StdSpec/std correspondence; strip_prefix bytes partial (known finding K1)",
  "Proved in Lean for all byte strings / pairs: parent is a byte-prefix whose std components are std's minus the last "
  "(C09.unix_parent_vs_std), file_name is the last of std's components when normal (unix_file_name_vs_std), stem and "
  "extension split it as documented (C12.stem_ext_split), starts_with / ends_with hold exactly when std's component "
  "list of the argument is a leading / trailing run (unix_starts_with_vs_std, unix_ends_with_vs_std), strip_prefix "
  "succeeds exactly then (strip_prefix_some_iff), == and cmp are equality and the derived lexicographic order of "
  "std's component lists (unix_eq_vs_std, unix_cmp_vs_std). StdSpec is compared with real std::path on every run.",
  "Byte-exactness of parent and ancestors is proved too: the returned slice is the SHORTEST leading slice of the path "
  "with those components — no proper leading slice of it has the same std components (C06b.unix_parent_minimal, "
  "unix_ancestors_minimal; hence unique: unix_parent_unique) — which is what std's Components::as_path returns (it trims "
  "every trailing separator and `.` segment down to the root). "
  "Partial: the strip_prefix remainder is not byte-equal to std's — known finding K1, proved as "
  "unix_strip_prefix_K1_witness and set aside in the oracle by a narrow class predicate; ancestors is iterated "
  "parent (fuel-bounded in the model, fuel proved adequate in C09b). All sub-paths are compared byte for byte with real std "
  "by the oracle on every run. Model=code and StdSpec=std by differential testing.",
  theorems=["TP.C09.unix_parent_vs_std", "TP.C06.unix_file_name_vs_std", "TP.C12.stem_ext_split", "TP.C06.unix_starts_with_vs_std",
            "TP.C06.unix_ends_with_vs_std", "TP.C06.strip_prefix_some_iff", "TP.C06.unix_eq_vs_std", "TP.C06.unix_cmp_vs_std",
            "TP.C06.unix_strip_prefix_K1_witness", "TP.C06b.unix_parent_minimal", "TP.C06b.unix_parent_unique",
            "TP.C06b.unix_ancestors_minimal"],
  modules=["TypedPathVerif.Props.C06b", "TypedPathVerif.Props.C09", "TypedPathVerif.Props.C12"],
  rule=NONTRIV + "non-trivial = >= 2 components (unary) / true prefix relation (pairs)", design_ref="§5 C06")

P("C07", "proof", "Lean 4 invariant-by-induction over operation histories (model vs StdBuf, incl. set_extension) + model/code and StdBuf/std correspondence; owned / UTF-8 / typed Unix buffers vs std by oracle",
  "Proved in Lean for every starting buffer and every finite history of push / pop / set_file_name / clear / "
  "set_extension: the std buffer is the typed-path buffer or that buffer plus one separator (unix_history_refines with "
  "invariant I), hence the two are component-equal throughout (I_comps_eq), every Boolean result agrees, and right "
  "after pushing a non-empty path — and after every successful set_extension — the buffers are byte-identical "
  "(unix_history_bytes, setExtension_trailing_sep). StdBuf (std's documented push rule; pop, set_file_name and "
  "set_extension as std defines them: truncate right after the file stem, append `.ext`) is compared with a real "
  "std::path::PathBuf on the same histories on every run.",
  "StdBuf's pop/set_file_name/set_extension use the model's Unix parent/file_name/file_stem queries (related to StdSpec "
  "by C09/C12 theorems and to std by the StdBuf/std differential). extend / collect / join are repeated or cloned pushes (that reading of the code is checked by the oracle on every run, "
  "with fused, non-fused and inexactly sized iterators); given it, Props/C07b proves for ALL item lists that extending related buffers keeps them related "
  "(extend_refines, extend_comps), byte-identical when the last item is non-empty (extend_bytes), and that collected buffers are related "
  "(collect_refines). with_file_name / with_extension are cloned set_file_name / set_extension (oracle against std). Extensions containing `/` are excluded (std "
  "panics on them). Model=code and StdBuf=std by differential testing.",
  theorems=["TP.C07.unix_history_refines", "TP.C07.I_comps_eq", "TP.C07.unix_history_bytes", "TP.C07.step_preserves",
            "TP.C07.setExtension_trailing_sep", "TP.C07b.extend_refines", "TP.C07b.extend_comps", "TP.C07b.extend_bytes",
            "TP.C07b.collect_refines", "TP.C07b.join_refines"],
  modules=["TypedPathVerif.Props.C07b"],
  rule="exhaustive histories of <= 2 ops over tiny arguments + seeded random histories; non-trivial = >= 2 ops; distinct by history", design_ref="§5 C07")

P("C08", "proof", "Lean 4 theorems (model push = documented rule table, byte-exact) + model/code correspondence; component clause by oracle (known finding K3)",
  "Proved in Lean for ALL byte strings a, b (no well-formedness needed): which of the five documented rules applies is "
  "decided by the decomposition (b empty / b has a prefix / a has a verbatim-kind prefix / b starts with a separator / "
  "otherwise), and in the four non-verbatim cases the result's bytes are exactly a, b, a's raw prefix ++ b, or a ++ "
  "[one `\\` unless a is empty, ends in either separator or is a bare drive] ++ b (win_push_bytes, with the query "
  "lemmas wPrefix_eq, wHasAnyVerbatim_eq, hasRoot_no_prefix, wIsOnlyDisk_eq tying push's queries to the parsed "
  "prefix); under a verbatim prefix the result is the re-rendering of a's components followed by b's with `.` dropped, "
  "`..` cancelling only a preceding normal component and a root resetting to the prefix (win_push_verbatim, "
  "verbatimFold_no_cur_added); an empty b changes nothing (win_push_empty); sequences of pushes follow the rules "
  "(pushes_follow_rules). Component clause: for a prefix-free non-empty base and for a base with a complete non-verbatim prefix, joining a non-empty relative prefix-free argument yields the base's components followed by the argument's minus a leading `.` — directly after a bare `X:` the argument's components unchanged, after a bare device-namespace / UNC prefix the implicit root first (C16b.win_push_comps_pf, Win.win_push_comps_prefixed). For a base with a complete verbatim prefix (followed by nothing or a separator) the rendered result re-parses to exactly the documented scan of the base's and the argument's components, root written out, same prefix (C08c.win_push_comps_verbatim via Win.render_parse); the scan never removes prefix or root and adds no `.` (fold_keeps_prefix_root, verbatimFold_no_cur_added); the same for ANY prefix-free argument, rooted ones included — a root resets the buffer to the prefix followed by the root (C08d.win_push_comps_verbatim_any, win_push_rooted_onto_verbatim).",
  "Partial: the component-level clause is false at known finding K3 (win_push_K3_witness) and not proved for bases with "
  "an INCOMPLETE prefix (no share, blank or `UNC` verbatim name) or a verbatim-disk prefix directly followed by a name; "
  "those are decided by the oracle, K3 set aside by a narrow class predicate. "
  "Model=code by differential testing; the harness has an independent Rust version of the rule table.",
  theorems=["TP.C08.win_push_bytes", "TP.C08.win_push_verbatim", "TP.C08.verbatimFold_no_cur_added", "TP.C08.win_push_empty",
            "TP.C08.pushes_follow_rules", "TP.C08.win_push_K3_witness", "TP.C08.wPrefix_eq", "TP.C08.wIsOnlyDisk_eq", "TP.C08.hasRoot_no_prefix",
            "TP.Win.win_push_comps_prefixed", "TP.C16b.win_push_comps_pf", "TP.C12c.push_name",
            "TP.C08c.win_push_comps_verbatim", "TP.C08c.fold_keeps_prefix_root", "TP.C08c.fold_vshape", "TP.Win.render_parse",
            "TP.C08d.win_push_comps_verbatim_any", "TP.C08d.win_push_rooted_onto_verbatim", "TP.C08d.verbatimFold_append",
            "TP.Win.render_parse_of_stable", "TP.C08e.win_push_comps_verbatim_of_stable", "TP.C08e.win_push_comps_verbatim_noshare"],
  modules=["TypedPathVerif.Lemmas.WinAppend", "TypedPathVerif.Props.C12c", "TypedPathVerif.Props.C08c", "TypedPathVerif.Lemmas.WinVerbatim", "TypedPathVerif.Props.C08d", "TypedPathVerif.Props.C08e"],
  rule=NONTRIV + "bases x arguments; non-trivial = non-empty argument", design_ref="§5 C08")

P("C09", "proof", "Lean 4 theorems (law B of the back parser, byte-prefix lemma, law R incl. stability of every complete Windows prefix under truncation, ancestors chain with fuel adequacy) + model/code correspondence",
  "Proved in Lean for both encodings and every byte string: parent is absent exactly when the component list is empty "
  "or ends in a root or prefix (parent_none_iff); otherwise the state it returns holds the original components without "
  "the last (parent_state_comps), the returned bytes are a leading slice of the input (parent_is_prefix), strictly "
  "shorter (parent_shorter), and pop truncates to exactly that slice, false/unchanged otherwise (pop_eq_parent); "
  "ancestors is the path followed by its successive parents and ends at the first path without a parent, the fuel "
  "never running out (ancestors_chain). Re-parse clause: for Unix the parent's bytes re-parse to the components minus "
  "the last and agree with StdSpec (unix_parent_comps, unix_parent_vs_std); for every well-formed Windows path — one "
  "that does not start like a prefix, or has a complete prefix of any of the six kinds — the same holds and the parent "
  "is again well-formed (win_parent_comps), so every ancestor's components are an initial segment of the path's "
  "(win_ancestors_comps, unix_ancestors_comps). Underneath: every complete prefix is re-parsed identically whatever "
  "tolerated bytes follow it (Win.stable_of_complete, from exact iff characterisations of all six kinds).",
  "Windows paths outside Win.WF — starting with two separators or `X:` without forming a complete prefix (`\\\\server`, "
  "`\\\\?\\`, `\\\\?\\UNC`, K3's `\\\\a`) — are not covered by the re-parse theorem (the incomplete prefixes really are "
  "unstable: examples in Lemmas/WinStable.lean); there the clause is decided by correspondence + oracle. UTF-8/typed "
  "forms: oracle. Model=code by differential testing.",
  theorems=["TP.C09.parent_none_iff", "TP.C09.parent_state_comps", "TP.C09.parent_is_prefix", "TP.C09.pop_eq_parent",
            "TP.C09.unix_parent_comps", "TP.C09.unix_parent_vs_std",
            "TP.C09b.win_parent_comps", "TP.C09b.parent_shorter", "TP.C09b.ancestors_chain",
            "TP.C09b.win_ancestors_comps", "TP.C09b.unix_ancestors_comps", "TP.Win.stable_of_complete", "TP.Win.win_reparse"],
  modules=["TypedPathVerif.Props.C09b"],
  rule=NONTRIV + "non-trivial = prefix or >= 2 components", design_ref="§5 C09")

P("C10", "proof", "Lean 4 theorems for Unix (laws F/R + append lemma) + model/code correspondence; Windows clauses partial (known findings K2, K3), decided by oracle",
  "Proved in Lean for all Unix byte strings / pairs: starts_with holds exactly when the base's components are a leading "
  "run of the path's, in particular for equal paths (unix_starts_with_iff, unix_starts_with_of_eq); ends_with is the "
  "mirror image (unix_ends_with_iff); strip_prefix succeeds exactly when starts_with holds "
  "(unix_strip_iff_starts), the remainder's components are the path's after the base's (unix_strip_comps) and the "
  "base joined with the remainder equals the path (unix_strip_join); for a relative b and non-empty a, a joined with "
  "b starts with a and stripping a yields b's components minus a leading `.` (unix_join_starts_strip). For BOTH encodings and all byte strings: starts_with / ends_with hold exactly when the component texts of the base are a leading / trailing run of the path's component texts, and strip_prefix succeeds exactly when starts_with holds (C10b.starts_with_iff_texts, ends_with_iff_texts, strip_iff_starts) — a prefix component's text being its raw spelling is K2. For Windows paths that do not start like a prefix the tests are exactly leading / trailing runs of components, in particular for equal paths (win_starts_with_iff, win_ends_with_iff, win_starts_ends_of_eq), and a join starts with its base (win_join_starts_pf, win_join_starts_prefixed, win_join_name_starts); when the stripped remainder does not start like a prefix either, the path's components are the base's followed by the remainder's and the base joined with the remainder equals the path (C10c.win_strip_comps_pf, win_strip_join_pf), and join-then-strip gives back the argument's components minus a leading `.` (win_join_strip_pf). The same for a path and base that both carry a complete non-verbatim prefix (disk, device namespace, UNC with a share), whatever follows it and however the rest is spelled: C10c.win_strip_split_prefixed, win_strip_join_prefixed (a rooted remainder after a bare prefix included). Under a complete VERBATIM prefix on both (Props/C10d): the path's components are the base's followed by a rest, and the base joined with the remainder is the verbatim scan of the base's components and that rest — the statement's 'up to the normalisation that joining onto a verbatim prefix applies' — for a non-empty remainder that does not start like a prefix and contains no `/` (win_strip_join_verbatim; the scan is blind to `.` markers: fold_dropCur, dropCur_compsT).",
  "Partial: on Windows the statement is false in two known ways — prefix components are compared by spelling (K2, "
  "proved as win_starts_with_K2_witness) and a remainder / base beginning with two separators re-parses as a UNC "
  "prefix (K3) — and names containing `/` under an exact `\\\\?\\` prefix (not well-formed: `/` is forbidden in Windows names) are outside the theorem; "
  "the oracle decides them on pairs of well-formed paths with re-spellings, K2/K3 set aside by narrow class "
  "predicates. UTF-8 / typed forms: oracle. Model=code by differential testing.",
  theorems=["TP.C10.unix_starts_with_iff", "TP.C10.unix_starts_with_of_eq", "TP.C10.unix_ends_with_iff", "TP.C10.unix_strip_iff_starts",
            "TP.C10.unix_strip_comps", "TP.C10.unix_strip_join", "TP.C10.unix_join_starts_strip", "TP.C10.win_starts_with_K2_witness",
            "TP.C10b.starts_with_iff_texts", "TP.C10b.ends_with_iff_texts", "TP.C10b.strip_iff_starts", "TP.C10b.win_starts_with_iff", "TP.C10b.win_ends_with_iff", "TP.C10b.win_starts_ends_of_eq", "TP.C10b.win_join_starts_pf", "TP.C10b.win_join_starts_prefixed", "TP.C10b.win_join_name_starts",
            "TP.C10c.win_strip_comps_pf", "TP.C10c.win_strip_join_pf", "TP.C10c.win_join_strip_pf",
            "TP.C10c.win_strip_split_prefixed", "TP.C10c.win_strip_join_prefixed",
            "TP.C10d.win_strip_join_verbatim", "TP.C10d.fold_dropCur", "TP.C10d.dropCur_compsT"],
  modules=["TypedPathVerif.Props.C10b", "TypedPathVerif.Props.C10c", "TypedPathVerif.Props.C10d"],
  rule=NONTRIV + "pairs (path, every byte-prefix and suffix of it, re-spellings, random others); non-trivial = proper non-empty component prefix", design_ref="§5 C10")

P("C11", "proof", "Lean 4 theorems for both encodings (render lemma: pushing the folded components re-parses to them; Unix append lemma; Windows append lemma on stable prefixes) + model/code correspondence; verbatim-prefixed Windows paths by fold oracle",
  "normFold in the model is literally the documented scan (drop `.`; `..` cancels the nearest preceding normal "
  "component, else vanishes; prefix and root kept). Proved in Lean for every Unix byte string: the normalised bytes "
  "parse to exactly that fold of the input's components (unix_normalize_comps, via render_shape and the Unix append "
  "lemma), they contain no `.` and no `..` (unix_normalize_no_dots), the path is rooted exactly when the input is "
  "(unix_normalize_keeps_root), and normalising again returns the same bytes (unix_normalize_idempotent). "
  "Proved in Lean for every Windows path that does not start like a prefix or has a complete disk / device-namespace / "
  "UNC prefix, and whose names contain no `:`: the same four statements (C11b.win_normalize_comps, "
  "win_normalize_no_dots, win_normalize_keeps_head — prefix and root are kept —, win_normalize_idempotent, byte for byte). Windows paths with a complete VERBATIM prefix (followed by nothing or a separator) and portable names: the same (C12d.win_normalize_verbatim, win_normalize_verbatim_no_dots), via the render-then-parse lemma for the component buffer that push rebuilds. absolutize (C11c; the current directory is a parameter of the model and travels in the `abs` op line): Unix — absolute, free of `.` / `..` and idempotent whenever the current directory is absolute, and for a relative path the fold of the current directory's components followed by the path's (unix_absolutize_absolute, unix_absolutize_relative, unix_absolutize_idempotent); Windows — the same fold for a covered current directory and a relative prefix-free path (win_absolutize_relative).",
  "Partial: paths that start like a prefix without forming a complete one, and verbatim-disk prefixes directly followed "
  "by a name (`\\\\?\\C:x`), are decided by the oracle (fold computed independently on the "
  "implementation's components, second normalisation compared byte for byte, separator scan) on a component-level "
  "domain and long random `.`/`..` mixes. The colon hypothesis is real: normalize(`a\\C:`) pushes `C:` back as a "
  "drive (names with `:` are invalid on Windows, so this is outside 'well-formed'). absolutize = join onto cwd then "
  "normalize: oracle for absolute inputs only. Model=code by differential testing.",
  theorems=["TP.C11c.unix_absolutize_absolute", "TP.C11c.unix_absolutize_relative", "TP.C11c.unix_absolutize_idempotent", "TP.C11c.win_absolutize_relative", "TP.C11.unix_normalize_comps", "TP.C11.unix_normalize_no_dots", "TP.C11.unix_normalize_keeps_root",
            "TP.C11.unix_normalize_idempotent", "TP.C11.render_shape", "TP.C11.normFold_comps_shape",
            "TP.C11b.win_normalize_comps", "TP.C11b.win_normalize_no_dots", "TP.C11b.win_normalize_keeps_head",
            "TP.C11b.win_normalize_idempotent", "TP.C11b.pushAll_names", "TP.C11b.normFold_pre",
            "TP.C12d.win_normalize_verbatim", "TP.C12d.win_normalize_verbatim_no_dots", "TP.C12d.pushAll_names_verbatim"],
  modules=["TypedPathVerif.Props.C11c", "TypedPathVerif.Props.C11b", "TypedPathVerif.Props.C12d"],
  rule=NONTRIV + "all strings over {sep, .., ., a} up to 6 tokens x prefixes, long random mixes; non-trivial = contains `.` or `..` and >= 2 components", design_ref="§5 C11")

P("C12", "proof", "Lean 4 theorems (law B; list lemma on the dot split) + model/code correspondence; replacement clause by oracle",
  "Proved in Lean for both encodings: file_name is the last component iff it is a normal name (file_name_iff_last_normal), "
  "no file name means no stem and no extension, and stem/extension split the name at its last dot with the `..` and "
  "leading-dot exceptions so that stem + '.' + extension reproduce the name (stem_ext_split, leading_dot_no_extension; "
  "rsplitDot_spec is the underlying pure list lemma). Windows replacement clause: for every base that does not start like a prefix or has a complete non-verbatim prefix, and every portable single name n, with_file_name gives file name n and a parent with the old parent's components (implicit root of a bare device-namespace / UNC prefix shown), or the join when there was no file name (C12c.win_with_file_name). Verbatim-prefixed bases: C12d.win_with_file_name_verbatim (file name n; the parent has the old parent's components, root after the prefix written out).",
  "For Unix also the replacement clause: replacing the file name by a good single name n gives file name n and a parent "
  "with the old parent's components, or the join when there was no file name (C12b.unix_with_file_name). "
  "Partial: the replacement clause for Windows is decided by the oracle and the correspondence, not by a theorem (it "
  "needs the Windows append lemma and is subject to known finding K3). Model=code by differential testing.",
  theorems=["TP.C12.file_name_iff_last_normal", "TP.C12.no_file_name_no_stem_ext", "TP.C12.stem_ext_split", "TP.C12.leading_dot_no_extension", "TP.rsplitDot_spec",
            "TP.C12b.unix_with_file_name",
            "TP.C12c.win_with_file_name", "TP.C12c.push_name", "TP.C12c.fileName_parent_of_comps",
            "TP.C12d.win_with_file_name_verbatim", "TP.C12d.push_name_verbatim"],
  modules=["TypedPathVerif.Lemmas.DotSplit", "TypedPathVerif.Props.C12b", "TypedPathVerif.Props.C12c", "TypedPathVerif.Props.C12d"],
  rule=NONTRIV + "names over {. a b} exhaustively; non-trivial = file name containing a dot / path with a file name", design_ref="§5 C12")

P("C13", "proof", "Lean 4 byte-level theorem (cut at the end of the stem) + model/code correspondence; Unix vs std and name/parent clauses by oracle",
  "Proved in Lean for both encodings, all paths and extensions: with a file name f the buffer is pre ++ f ++ junk (junk "
  "= separator / `.` tokens only), set_extension returns true and the new buffer is pre ++ stem ++ ['.' ++ x] — cut "
  "exactly at the end of the stem whatever trails the file name (set_ext_bytes); the cut is followed by a dot, a junk "
  "token or nothing, i.e. never inside a name, hence on a character boundary of a valid UTF-8 buffer "
  "(set_ext_cut_boundary); without a file name it returns false and leaves the buffer untouched (set_ext_false, "
  "set_ext_true_iff). Windows re-parse: for every covered base without a verbatim prefix and every separator-free extension the result has the old components with the file name replaced by stem[.x] — same parent, new file name — and is again covered (C13b.win_set_ext_comps, win_set_ext_name_parent); the same under a complete VERBATIM prefix, for either separator set and flag (C13c.win_set_ext_comps_verbatim: old components with the file name replaced, same prefix parsed again).",
  "For Unix the result is also proved to re-parse with the old parent's components and the file name stem[.x] "
  "(C12b.unix_set_ext_comps, unix_set_ext_name_parent; the corner stem in {., ..} with empty x is excluded exactly as "
  "in std), and the result of a valid UTF-8 buffer is valid UTF-8 (C14.set_extension_valid). "
  "Partial: the re-parse clause for Windows, the byte equality with std::path::PathBuf::set_extension on Unix, "
  "repeated application, with_extension = clone + set_extension and the UTF-8 copy are decided by the oracle (real std "
  "as reference) and the correspondence, not by a theorem. Model=code by differential testing incl. multi-byte "
  "characters next to every cut.",
  theorems=["TP.C13c.win_set_ext_comps_verbatim", "TP.C13.set_ext_bytes", "TP.C13.set_ext_cut_boundary", "TP.C13.set_ext_false", "TP.C13.set_ext_true_iff", "TP.C13.set_ext_total",
            "TP.C13.set_ext_tokens", "TP.C12b.unix_set_ext_comps", "TP.C12b.unix_set_ext_name_parent", "TP.C14.set_extension_valid",
            "TP.C13b.win_set_ext_comps", "TP.C13b.win_set_ext_name_parent", "TP.C13b.set_ext_tokens2", "TP.C07.setExtension_trailing_sep", "TP.C07.step_preserves",
            "TP.C13d.win_set_ext_comps_verbatim_of_stable", "TP.C13d.win_set_ext_comps_noshare"],
  modules=["TypedPathVerif.Props.C13c", "TypedPathVerif.Props.C12b", "TypedPathVerif.Props.C14", "TypedPathVerif.Props.C13b", "TypedPathVerif.Props.C07", "TypedPathVerif.Props.C13d"],
  rule=NONTRIV + "(path, extension) pairs; non-trivial = file name followed by separators or `.`", design_ref="§5 C13")

P("C14", "proof", "Lean 4 theorems (UTF-8 validity is preserved by every byte-level operation and mutation history; the UTF-8 family's own dot split and validity over characters = the byte family's) + character-level model vs Utf8Path (u8dot / u8valid) + UTF-8 family vs byte family transcripts (delegation) + model/code correspondence; thorough tier: measured function coverage of the UTF-8 source files by the harness",
  "Spec/Utf8.lean defines well-formed UTF-8 (RFC 3629; validB_iff ties the executable check to the inductive "
  "definition, and the check is compared with core::str::from_utf8 on every run). Proved in Lean, both encodings, for "
  "every valid input: the Windows prefix is cut on a character boundary (prefix_split_valid, through all six prefix "
  "alternatives), every token and component text is valid (new_valid, comps_bytes_valid), the remaining text after ANY "
  "interleaving of front/back steps is valid (remaining_valid), parent / file_name / file_stem / extension / "
  "strip_prefix hand out valid strings, and push (incl. the verbatim rebuild), push_checked, pop, set_file_name, "
  "set_extension, normalize and with_encoding return valid buffers — hence validity after every finite mutation "
  "history with valid arguments (mutations_valid). This is exactly the invariant the from_utf8_unchecked / "
  "as_mut_vec code of the UTF-8 wrappers needs. "
  "The two algorithms the UTF-8 family does NOT delegate have a character-level model of their own (Spec/Chars.lean: the "
  "characters of a string, their code points, rsplit_file_at_dot over an arbitrary element type, validity against the "
  "regenerated char tables), compared with Utf8Path::file_stem / extension / is_valid on every run (u8dot / u8valid ops), "
  "and are proved equal to the byte family's on every valid string (Props/C14b): splitting the characters at the last "
  "character `.` = splitting the bytes at the last byte 0x2E (utf8_rsplit_dot_eq_bytes, u8StemExt_eq); no character in the "
  "char table = no byte in the byte table (utf8_name_valid_eq_bytes, u8IsValid_eq), because a character is one ASCII byte or "
  "a block of non-ASCII bytes with a code point >= 128 (chars_isChar, IsChar.codepoint_ge).",
  "What no theorem carries: that each of the ~40 UTF-8 wrapper methods calls the right byte method and adds nothing "
  "of its own (delegation), and that nothing panics. That is decided by the correspondence: every UTF-8 operation is "
  "run next to its byte twin (identical transcripts, every &str re-validated with from_utf8, catch_unwind), on "
  "strings with 2-, 3- and 4-byte characters next to every separator / dot / colon, plus mutation sequences; "
  "conversions between the families succeed iff valid. Model=code by differential testing.",
  theorems=["TP.SurfaceUtf8.impl_methods_utf8", "TP.C14.api_exercised_utf8", "TP.Utf8.validB_iff", "TP.Utf8.Valid.append", "TP.Utf8.Valid.split_ascii", "TP.C14.prefix_split_valid",
            "TP.C14.new_valid", "TP.C14.comps_bytes_valid", "TP.C14.remaining_valid", "TP.C14.parent_valid",
            "TP.C14.file_name_valid", "TP.C14.stem_ext_valid", "TP.C14.strip_prefix_valid", "TP.C14.push_valid",
            "TP.C14.push_checked_valid", "TP.C14.pop_valid", "TP.C14.set_file_name_valid", "TP.C14.set_extension_valid",
            "TP.C14.normalize_valid", "TP.C14.with_encoding_valid", "TP.C14.mutations_valid",
            "TP.C14b.chars_flatten", "TP.C14b.chars_isChar", "TP.C14b.IsChar.codepoint_ge", "TP.C14b.rsplitDot_eq_rsplitAt",
            "TP.C14b.utf8_rsplit_dot_eq_bytes", "TP.C14b.utf8_stem_ext_eq_bytes", "TP.C14b.u8StemExt_eq",
            "TP.C14b.utf8_name_valid_eq_bytes", "TP.C14b.utf8_unix_name_valid", "TP.C14b.utf8_windows_name_valid", "TP.C14b.u8IsValid_eq"],
  modules=["TypedPathVerif.Props.SurfaceUtf8", "TypedPathVerif.Lemmas.Utf8", "TypedPathVerif.Props.C14b"],
  rule="strings over {/ \\ . : a é 日 😀 ? C} + prefix seeds with non-ASCII payloads + random; non-trivial = multi-byte character and >= 2 components", design_ref="§5 C14")

P("C15", "translation_validation", "whole-family method transcripts: typed / UTF-8 typed / platform / UTF-8 platform wrappers vs the wrapped concrete types, borrowed and owned, variant tag after every call + Lean theorems for the derive rule + model differential; thorough tier: measured function coverage of src/typed by the harness",
  "Every wrapper method (read-only, mutating, conversions, iterators forwards / backwards / alternating) is run on both "
  "variants, on the borrowed and the owned type, and compared line by line with the same method on the wrapped concrete "
  "type; the variant is checked after every call; platform and UTF-8 platform types are compared with the native "
  "encoding. The one piece of logic — how TypedPath::derive picks the variant — is proved in Lean: Windows exactly "
  "when the first byte is `\\` or a prefix parses (derive_iff), hence every `X:`-path is Windows (derive_disk), every "
  "path that neither starts with `\\` nor like a prefix is Unix (derive_unix_of_prefix_free), and the tag of a path with "
  "a complete prefix does not depend on what follows the prefix (derive_stable); the model's derive is compared with "
  "the crate's and with the independent grammar on every run.",
  TV_NOTE + "That each wrapper method delegates to the right concrete method is code shape, not logic: decided by the "
  "transcripts (implementation vs implementation), not by a theorem. Only the Unix host configuration of native/platform "
  "can be built here.",
  theorems=["TP.SurfaceTyped.impl_methods_typed", "TP.C15.api_exercised_typed", "TP.C15.derive_iff", "TP.C15.derive_windows_of_prefix", "TP.C15.derive_disk",
            "TP.C15.derive_unix_of_prefix_free", "TP.C15.derive_stable"],
  modules=["TypedPathVerif.Props.SurfaceTyped"],
  rule="small Windows and Unix domains + hostile names x 10 arguments x both variants x 6 type families; non-trivial = >= 2 components", design_ref="§5 C15")

P("C16", "proof", "Lean 4 theorems (same-encoding clauses; Windows->Unix structure preservation for prefix-free paths) + model/code correspondence; other clauses by oracle (known finding K4)",
  "Proved in Lean: converting to the same encoding returns the same bytes (conv_same_label) and the checked variant "
  "returns them exactly when the path is valid, InvalidFilename otherwise (conv_checked_same_label); for every "
  "prefix-free (hence non-verbatim) Windows byte string the Unix conversion parses to exactly the same sequence of "
  "component kinds and names (conv_w2u_prefix_free — no portability hypothesis is needed in this direction because "
  "every Windows name is `/`-free), using the fact that a string not starting with two separators or `X:` has no "
  "prefix (parsePrefix_none_of_pfxStart) and the render lemma for Unix. "
  "Also proved (Props/C16b): for every Unix path whose names are portable (non-empty, not `.`/`..`, no separator of "
  "either encoding, no `:`), the Windows conversion parses to exactly the same sequence of component kinds and names "
  "and is prefix-free (conv_u2w_portable); the round trips Unix->Windows->Unix and Windows->Unix->Windows return an "
  "equal path (roundtrip_u_w_u, roundtrip_w_u_w), the latter for prefix-free Windows paths; both rest on the append "
  "lemma for prefix-free Windows buffers (win_push_comps_pf). Windows -> Unix for paths WITH a complete non-verbatim prefix: the prefix is dropped, a disk-prefixed path keeps exactly the components after the prefix (rooted iff it had a root), a device-namespace / UNC-prefixed path becomes rooted and keeps the components after the prefix (C16c.conv_w2u_prefixed). Checked conversions: a successful checked conversion returns exactly the unchecked conversion (C16d.conv_checked_ok_eq_unchecked, both directions, all inputs); the same-encoding one succeeds exactly on valid paths with the bytes unchanged (conv_checked_same_valid); the conversion fails as soon as the checked push of some source name is rejected (conv_checked_fails_on_name), in particular whenever a source name contains a byte the target forbids that is not itself a target separator (conv_checked_fails_forbidden, via push_checked_rejects_forbidden and the byte-conservation theorem of C03; the separator case is known finding K4). A successful checked conversion is valid in the target and keeps kinds and names (Props/C16e): Unix->Windows for every source none of whose names contains `\\` (K4 excluded) — result prefix-free, same component sequence, is_valid (conv_checked_u2w_valid); Windows->Unix for every source that does not start like a prefix (conv_checked_w2u_valid) and for every source with a complete non-verbatim prefix (conv_checked_w2u_prefixed_valid: prefix dropped, rooted unless it was a disk, valid). Complete VERBATIM prefixes (Props/C16f): the prefix is dropped and the Unix result is rooted with exactly the components after the prefix (conv_w2u_verbatim), and a successful checked conversion is that result and is valid (conv_checked_w2u_verbatim_valid) — for every spelling of the marker; under the exact `\\\\?\\` marker for rests without `/` and without `.` segments (a name containing `/` becomes two Unix components, a kept `.` vanishes on the Unix side), and with nothing or a separator after a verbatim disk.",
  "Partial: the checked 'valid in target, same kinds and names' clause is not proved for incompletely prefixed Windows "
  "sources, for `\\\\?\\C:x` (a name glued to a verbatim disk) and for exact-marker verbatim paths with `/` in a name or interior `.` components; it is false at known finding K4 (conv_checked_K4_witness: a Unix name "
  "containing `\\` becomes two Windows components). The oracle decides all of them on every run in all four "
  "directions (forbidden-byte alphabet, prefix seeds), K4 set aside by a narrow class predicate. Typed / platform / "
  "UTF-8 shortcuts (unchecked, checked, owned, same-encoding): oracle. Model=code by differential testing.",
  theorems=["TP.C16.conv_same_label", "TP.C16.conv_checked_same_label", "TP.C16.conv_w2u_prefix_free",
            "TP.C16.parsePrefix_none_of_pfxStart", "TP.C16.win_comps_pf", "TP.C16.conv_checked_K4_witness",
            "TP.C16b.win_push_comps_pf", "TP.C16b.conv_u2w_portable", "TP.C16b.roundtrip_u_w_u", "TP.C16b.roundtrip_w_u_w",
            "TP.C16c.conv_w2u_prefixed", "TP.C16c.convFold_list",
            "TP.C16d.conv_checked_ok_eq_unchecked", "TP.C16d.conv_checked_same_valid", "TP.C16d.conv_checked_fails_on_name", "TP.C16d.conv_checked_fails_forbidden", "TP.C16d.push_checked_rejects_forbidden",
            "TP.C16e.conv_checked_u2w_valid", "TP.C16e.conv_checked_w2u_valid", "TP.C16e.conv_checked_w2u_prefixed_valid",
            "TP.C16f.conv_w2u_verbatim", "TP.C16f.conv_checked_w2u_verbatim_valid",
            "TP.C16g.conv_w2u_verbatim_of_stable", "TP.C16g.conv_checked_w2u_verbatim_valid_of_stable"],
  modules=["TypedPathVerif.Props.C16b", "TypedPathVerif.Props.C16c", "TypedPathVerif.Props.C16d", "TypedPathVerif.Props.C16e", "TypedPathVerif.Props.C16f", "TypedPathVerif.Props.C16g"],
  rule=NONTRIV + "strings over {\\ / : . a}, forbidden-byte alphabet, prefix seeds; non-trivial = prefix or >= 2 components", design_ref="§5 C16")

P("C17", "proof", "tables regenerated from the source + Lean 4 theorems (decide over the whole tables, validity lemmas) + correspondence",
  "The four forbidden tables and the separator/dot constants are regenerated from /repo on every run and proved equal "
  "(as sets) to the documented ones by kernel evaluation (unix_forbidden_eq, windows_forbidden_eq, char_tables_eq, "
  "constants_eq); on top of that: a component is valid iff it is not a normal name with a documented forbidden byte "
  "(comp_valid_iff), a path is valid iff all its normal components are clean (path_valid_iff), and the InvalidFilename "
  "verdict is returned only if some name is invalid and never for a valid path (invalid_verdict_sound, "
  "valid_agrees_checked, invalid_verdict_complete).",
  "gen/constants.py (regex extraction) is trusted to copy the tables; that is_valid/push_checked in Rust consult these "
  "tables the way the model does is validated by the correspondence (all 256 byte values in three positions) and the "
  "UTF-8 counterparts by the oracle.",
  theorems=["TP.C17.unix_forbidden_eq", "TP.C17.windows_forbidden_eq", "TP.C17.char_tables_eq", "TP.C17.constants_eq",
            "TP.C17.comp_valid_iff", "TP.C17.path_valid_iff", "TP.C17.invalid_verdict_sound", "TP.C17.valid_agrees_checked", "TP.C17.invalid_verdict_complete"],
  rule="all 256 byte values x 3 positions x several prefixes + small domains + multi-byte characters with forbidden low bytes; non-trivial = invalid or >= 2 components", design_ref="§5 C17")

P("C18", "proof", "Lean 4 theorems: byte-level fault-capable transcriptions (checked indices, checked usize arithmetic, fuelled loops) of the parser combinators, both parsers, the hash loops and the push_checked counter never fault, for every input and step sequence; partial-operation site table regenerated from the source + model/code correspondence (cmix) + catch_unwind / time-limit exploration for stack, allocation and time",
  "Proved in Lean for every byte string and every sequence of next / next_back calls: the byte-level transcription of "
  "src/common/non_utf8/parser.rs and of the Unix and Windows component and prefix parsers (Model/Comb: one definition per "
  "Rust function, every slice index, `input[0]`, usize subtraction and unwrap checked, every while loop fuelled by the "
  "input length) never yields a panic or a divergence and returns exactly what the token-level parser returns "
  "(unix_parser_total, windows_parser_total, *_comb_interleave). Outside the parsers: Encoding::hash of both encodings with "
  "checked indexing never goes out of range and equals the model's loop (hash_index_in_range); `normal_cnt -= 1` never "
  "underflows (checked_count_no_underflow) and never exceeds the argument's length + 1, so a counter as wide as the length type cannot overflow while a narrower one can (C18b.checked_count_bounded, checkedScanW_eq, checked_count_fits_usize, narrow_counter_faults: 128 clean names overflow a counter that ends at 127); set_extension's `end_file_stem - start` is inside the buffer and on a "
  "character boundary (set_ext_cut_in_range). gen/partial.py regenerates on every run the table of indexing / unwrap / "
  "subtraction / truncate / loop / panic-macro / unsafe sites per source file, and partial_sites_covered proves it is "
  "the table those theorems were written against (a new site breaks it). The transcription is tied to the crate by the "
  "cmix correspondence on every run; every other model function is a total Lean function.",
  "Partial: a theorem about a model cannot exhibit stack depth, allocation failure or running time: those are explored "
  "(every public operation under catch_unwind with a time limit on bounded-exhaustive and very long inputs), not proved. "
  "`unsafe` blocks (repr(transparent) casts, from_utf8_unchecked) are counted in the site table but modelled, not verified "
  "(C14 proves the UTF-8 invariant they rely on; C19 exercises the casts). The `.expect` under cfg!(windows) is unreachable "
  "on this host. gen/partial.py (regex counting after stripping comments, literals, attributes and test modules) is trusted. " + TV_NOTE,
  theorems=["TP.C18b.checked_count_bounded", "TP.C18b.checkedScanW_eq", "TP.C18b.checked_count_fits_usize", "TP.C18b.narrow_counter_faults", "TP.C18b.comps_length_le", "TP.C18.unix_parser_total", "TP.C18.windows_parser_total", "TP.C18.unix_comb_interleave", "TP.C18.windows_comb_interleave",
            "TP.C18.runC_sim", "TP.C18.hash_index_in_range", "TP.C18.checked_count_no_underflow", "TP.C18.set_ext_cut_in_range",
            "TP.C18.partial_sites_covered"],
  modules=["TypedPathVerif.Props.C18b"],
  rule="14+ long-input shapes (16-64 KiB) x 6 arguments x ~45 operations, plus every short input; distinct by (shape, argument)",
  explanation="Totality of the parsers, hash loops, checked-push counter and set_extension cut are Lean theorems about byte-level "
              "transcriptions with checked indices and fuelled loops, tied to the code by correspondence and by the regenerated "
              "site table; stack, allocation and time are explored under catch_unwind with a time limit on long inputs of every shape.",
  design_ref="§5 C18", extra_tb=["gen/partial.py (partial-operation site table)"])

P("C19", "translation_validation", "conversion chains vs std (implementation vs oracle), borrowed vs owned / boxed / counted / Cow comparisons + Lean model and theorems for to_str and the lossy / Display text (Spec/Lossy, Props/C19b) + a Lean obligation tying the chains to the regenerated list of conversion impls; thorough tier: measured function coverage of the remaining source files by the harness",
  "Every conversion the crate offers is driven on valid and invalid UTF-8 byte strings and compared with the input bytes, "
  "std's from_utf8 / from_utf8_lossy. gen/api.py regenerates, on every run, the list of every conversion / formatting "
  "trait impl the source declares (AsRef, From, TryFrom, TryAsRef, Borrow, FromStr, Extend, FromIterator, IntoIterator, "
  "Default, Deref, ToOwned, Display: 179 impls); conv_impls_covered proves it equal to the list the oracle's chains were "
  "written against, so a conversion added to or removed from the crate is reported. The to_str / lossy / Display clause has a Lean "
  "model of its own (Spec/Lossy.lean: the standard lossy decoding, substitution of maximal subparts) compared with the crate's "
  "to_str, to_string_lossy, display() and Display of every family on every run (`lossy` lines), and theorems for every byte string "
  "(Props/C19b): to_str is Some exactly for valid UTF-8 and then the input; the lossy text is always valid UTF-8, equals the input "
  "exactly for valid input, is idempotent, keeps every ASCII byte (separators, dots, colons) in order and is at most 3x as long.",
  TV_NOTE + "The repr(transparent) pointer casts are exercised, not proved. conv_impls_covered is a statement about the "
  "regenerated table (regex extraction, trusted), not about the behaviour of the conversions.",
  theorems=["TP.C19.conv_impls_covered", "TP.C19.toStr_some_iff", "TP.C19.toStr_eq", "TP.C19.lossy_valid", "TP.C19.lossy_of_valid",
            "TP.C19.lossy_eq_self_iff", "TP.C19.lossy_idempotent", "TP.C19.toStr_eq_display", "TP.C19.lossy_ascii",
            "TP.C19.lossy_length_le", "TP.C19.lossy_length_ge", "TP.C19.replCount_zero_iff"],
  modules=["TypedPathVerif.Props.C19b"],
  rule="all byte strings <= 4 over a 9-byte alphabet with valid and invalid UTF-8 sequences; lossy lines: every string <= 3 (thorough 4) over 25 bytes at the class edges of UTF-8 lead / continuation bytes, the UTF-8 and path domains; non-trivial = contains a non-ASCII byte", design_ref="§5 C19")

P("C20", "translation_validation", "two builds (std / no-default-features) vs one model, op by op + Lean theorem over the generated cfg-site table",
  "The harness is built in both feature configurations; both run the same op file (a slice of every other property's "
  "domain); the two transcripts must be identical op by op (a difference is reported with that op as replay) and equal "
  "to the model's. In addition gen/sites.py regenerates the table of every feature-dependent cfg / cfg_attr site of "
  "the source on every run and cfg_additive proves by kernel evaluation that `std` is tested negatively only by the "
  "crate-level no_std attribute and every other site guards a whole item positively (no alternative bodies); "
  "no_runtime_feature_test: no cfg!(feature) expression exists.",
  TV_NOTE + "The theorem is about the generated table (gen/sites.py, regex + a small cfg-predicate parser, is trusted); "
  "that an additive table implies identical semantics is an argument about Rust, not a Lean theorem — the two-build "
  "differential is what decides.",
  theorems=["TP.SurfaceBase.impl_methods_base", "TP.C20.api_exercised_base", "TP.C20.cfg_additive", "TP.C20.no_runtime_feature_test", "TP.C20.cfg_sites_nonempty"],
  modules=["TypedPathVerif.Props.SurfaceBase"],
  rule="every 17th (quick) / 3rd (thorough) op line of the other properties' quick domains; two builds", design_ref="§5 C20")
