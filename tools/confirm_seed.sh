#!/bin/bash
# confirm_seed.sh <name> : verify a seeded change in its scratch worktree /tmp/seedwt_<name>
#   (compiles, suite passes, demo fails with / passes without), then store it under /verif/seeded/<name>/
set -u
N=$1
WT=/tmp/seedwt_$N
OUT=/tmp/seedout/$N
export CARGO_NET_OFFLINE=true
cd $WT || exit 2
git -C $WT checkout -q -- . ; git -C $WT clean -fdq -e target
git -C $WT apply $OUT/patch.diff || { echo "patch does not apply"; exit 2; }
suite=$(cargo test --offline 2>&1 | grep -E "^test result" | tr '\n' ' ')
echo "suite with change: $suite"
mkdir -p tests && cp $OUT/demo.rs tests/demo.rs
with=$(cargo test --offline --test demo 2>&1 | grep -E "^test result" | tr '\n' ' ')
echo "demo with change: $with"
git -C $WT apply -R $OUT/patch.diff
without=$(cargo test --offline --test demo 2>&1 | grep -E "^test result" | tr '\n' ' ')
echo "demo without change: $without"
rm -rf tests
git -C $WT checkout -q -- .
mkdir -p /verif/seeded/$N
cp $OUT/patch.diff /verif/seeded/$N/patch.diff
cp $OUT/demo.rs /verif/seeded/$N/demo.rs
[ -f $OUT/notes.md ] && cp $OUT/notes.md /verif/seeded/$N/notes.md
printf '%s\n' "suite_with_change: $suite" "demo_with_change: $with" "demo_without_change: $without" > /verif/seeded/$N/confirm.txt
