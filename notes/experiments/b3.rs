use typed_path::*;
use std::collections::HashMap; use std::cell::RefCell;
thread_local!{ static CNT: RefCell<HashMap<String,usize>> = RefCell::new(HashMap::new()); }
fn rep(m: &str) { let k: String = m.split(' ').take(2).collect::<Vec<_>>().join(" "); CNT.with(|c| { let mut c = c.borrow_mut(); let e = c.entry(k).or_insert(0); *e += 1; if *e <= 10 { println!("{}", m); } }); }
fn s(b: &[u8]) -> String { String::from_utf8_lossy(b).into_owned() }
fn gen(alpha: &[u8], maxlen: usize) -> Vec<Vec<u8>> {
    let mut out = vec![vec![]]; let mut cur = vec![vec![]];
    for _ in 0..maxlen { let mut next = Vec::new(); for p in &cur { for &a in alpha { let mut q: Vec<u8> = p.clone(); q.push(a); next.push(q); } } out.extend(next.iter().cloned()); cur = next; }
    out
}
#[derive(Debug, Clone, PartialEq)]
enum K { Pre, Root, Cur, Par, N(Vec<u8>) }
fn wk(b: &[u8]) -> Vec<K> { WindowsPath::new(b).components().map(|c| match c { WindowsComponent::Prefix(_) => K::Pre, WindowsComponent::RootDir => K::Root, WindowsComponent::CurDir => K::Cur, WindowsComponent::ParentDir => K::Par, WindowsComponent::Normal(n) => K::N(n.to_vec()) }).collect() }
fn uk(b: &[u8]) -> Vec<K> { UnixPath::new(b).components().map(|c| match c { UnixComponent::RootDir => K::Root, UnixComponent::CurDir => K::Cur, UnixComponent::ParentDir => K::Par, UnixComponent::Normal(n) => K::N(n.to_vec()) }).collect() }
const WBAD: &[u8] = b"\\/:?*\"><|\0";
const UBAD: &[u8] = b"/\0";
fn main() {
    // C17
    let alpha: Vec<u8> = b"\\/:?*\"><|\0.a".to_vec();
    let ins = gen(&alpha, 4);
    let mut all = ins.clone();
    for p in [&br"\\?\C:\"[..], br"\\?\x\", b"C:", br"\\s\h\"] { for t in gen(&alpha, 3) { let mut v = p.to_vec(); v.extend(t); all.push(v); } }
    println!("C17 inputs {}", all.len());
    for b in &all {
        let exp = WindowsPath::new(b).components().all(|c| match c { WindowsComponent::Normal(n) => !n.iter().any(|x| WBAD.contains(x)), _ => true });
        if WindowsPath::new(b).is_valid() != exp { rep(&format!("C17 win {:?}", s(b))); }
        let exp = UnixPath::new(b).components().all(|c| match c { UnixComponent::Normal(n) => !n.iter().any(|x| UBAD.contains(x)), _ => true });
        if UnixPath::new(b).is_valid() != exp { rep(&format!("C17 unix {:?}", s(b))); }
        if let Ok(st) = std::str::from_utf8(b) {
            if Utf8WindowsPath::new(st).is_valid() != WindowsPath::new(b).is_valid() { rep(&format!("C17 utf8win {:?}", s(b))); }
            if Utf8UnixPath::new(st).is_valid() != UnixPath::new(b).is_valid() { rep(&format!("C17 utf8unix {:?}", s(b))); }
        }
    }
    // C16
    let alpha: Vec<u8> = b"\\/:.a".to_vec();
    let mut srcs = gen(&alpha, 5);
    for p in [&br"\\?\C:\"[..], br"\\?\x\", b"C:", br"\\s\h\", br"\\s\h", br"\\?\C:", br"\\.\dev\", br"\\?\UNC\s\h\"] { for t in gen(&alpha, 3) { let mut v = p.to_vec(); v.extend(t); srcs.push(v); } }
    for b in &srcs {
        // same encoding
        if UnixPath::new(b).with_unix_encoding().as_bytes() != &b[..] { rep(&format!("C16 same-unix {:?}", s(b))); }
        if WindowsPath::new(b).with_windows_encoding().as_bytes() != &b[..] { rep(&format!("C16 same-win {:?}", s(b))); }
        // unix -> windows
        let src = uk(b); let u = UnixPath::new(b);
        let w = u.with_windows_encoding(); let dst = wk(w.as_bytes());
        let both_valid = src.iter().all(|k| match k { K::N(n) => !n.iter().any(|x| WBAD.contains(x) || UBAD.contains(x)), _ => true });
        if both_valid { if src != dst { rep(&format!("C16 u2w-kinds {:?} -> {:?}", s(b), s(w.as_bytes()))); }
            if w.with_unix_encoding() != *u { rep(&format!("C16 u2w-roundtrip {:?} -> {:?} -> {:?}", s(b), s(w.as_bytes()), s(w.with_unix_encoding().as_bytes()))); } }
        let has_bad = src.iter().any(|k| match k { K::N(n) => n.iter().any(|x| WBAD.contains(x)), _ => false });
        match u.with_windows_encoding_checked() { Ok(r) => { if has_bad { rep(&format!("C16 u2w-checked-should-fail {:?} -> {:?}", s(b), s(r.as_bytes()))); }
                if r.as_bytes() != w.as_bytes() { rep(&format!("C16 u2w-checked!=unchecked {:?}: {:?} vs {:?}", s(b), s(r.as_bytes()), s(w.as_bytes()))); }
                if !r.is_valid() { rep(&format!("C16 u2w-checked-invalid {:?}", s(b))); }
                if wk(r.as_bytes()) != src { rep(&format!("C16 u2w-checked-kinds {:?} -> {:?}", s(b), s(r.as_bytes()))); } }
            Err(_) => { if both_valid { rep(&format!("C16 u2w-checked-fails-on-valid {:?}", s(b))); } } }
        // windows -> unix
        let src = wk(b); let wp = WindowsPath::new(b);
        let ux = wp.with_unix_encoding(); let dst = uk(ux.as_bytes());
        let wpc = wp.components(); let pk = wpc.prefix_kind();
        let mut exp: Vec<K> = src.iter().filter(|k| **k != K::Pre).cloned().collect();
        if pk.is_some() && !matches!(pk, Some(WindowsPrefix::Disk(_))) && exp.first() != Some(&K::Root) { exp.insert(0, K::Root); }
        let both_valid = src.iter().all(|k| match k { K::N(n) => !n.iter().any(|x| WBAD.contains(x) || UBAD.contains(x)), _ => true });
        if both_valid { if exp != dst { rep(&format!("C16 w2u-kinds {:?} -> {:?}: {:?} vs {:?}", s(b), s(ux.as_bytes()), dst, exp)); }
            if pk.is_none() && ux.with_windows_encoding() != *wp { rep(&format!("C16 w2u-roundtrip {:?} -> {:?}", s(b), s(ux.as_bytes()))); } }
        let has_bad = src.iter().any(|k| match k { K::N(n) => n.iter().any(|x| UBAD.contains(x)), _ => false });
        match wp.with_unix_encoding_checked() { Ok(r) => { if has_bad { rep(&format!("C16 w2u-checked-should-fail {:?} -> {:?}", s(b), s(r.as_bytes()))); }
                if r.as_bytes() != ux.as_bytes() { rep(&format!("C16 w2u-checked!=unchecked {:?}: {:?} vs {:?}", s(b), s(r.as_bytes()), s(ux.as_bytes()))); }
                if !r.is_valid() { rep(&format!("C16 w2u-checked-invalid {:?}", s(b))); }
                if uk(r.as_bytes()) != exp { rep(&format!("C16 w2u-checked-kinds {:?} -> {:?}", s(b), s(r.as_bytes()))); } }
            Err(_) => { if both_valid { rep(&format!("C16 w2u-checked-fails-on-valid {:?}", s(b))); } } }
        // same-label checked
        match wp.with_windows_encoding_checked() { Ok(r) => if r.as_bytes() != &b[..] || !r.is_valid() { rep(&format!("C16 w2w-checked {:?}", s(b))); }, Err(_) => if wp.is_valid() { rep(&format!("C16 w2w-checked-fails {:?}", s(b))); } }
    }
    CNT.with(|c| for (k,v) in c.borrow().iter() { println!("COUNT {} {}", k, v); });
}
