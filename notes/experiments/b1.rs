use typed_path::*;
use std::collections::HashMap; use std::cell::RefCell;
use std::hash::{Hash, Hasher};
thread_local!{ static CNT: RefCell<HashMap<String,usize>> = RefCell::new(HashMap::new()); }
fn rep(m: &str) { let k: String = m.split(' ').take(2).collect::<Vec<_>>().join(" "); CNT.with(|c| { let mut c = c.borrow_mut(); let e = c.entry(k).or_insert(0); *e += 1; if *e <= 12 { println!("{}", m); } }); }
#[derive(Default)]
struct Rec(Vec<Vec<u8>>);
impl Hasher for Rec { fn finish(&self) -> u64 { 0 } fn write(&mut self, b: &[u8]) { self.0.push(b.to_vec()); } }
fn h<T: Hash + ?Sized>(t: &T) -> Vec<Vec<u8>> { let mut r = Rec::default(); t.hash(&mut r); r.0 }
fn s(b: &[u8]) -> String { String::from_utf8_lossy(b).into_owned() }
fn gen(alpha: &[u8], maxlen: usize) -> Vec<Vec<u8>> {
    let mut out = vec![vec![]]; let mut cur = vec![vec![]];
    for _ in 0..maxlen { let mut next = Vec::new(); for p in &cur { for &a in alpha { let mut q: Vec<u8> = p.clone(); q.push(a); next.push(q); } } out.extend(next.iter().cloned()); cur = next; }
    out
}
fn wc(b: &[u8]) -> Vec<WindowsComponent> { WindowsPath::new(b).components().collect() }
fn is_sep(b: u8) -> bool { b == b'\\' || b == b'/' }
fn wf(b: &[u8]) -> bool {
    let p = WindowsPath::new(b);
    if !p.is_valid() { return false; }
    let cs = p.components();
    match cs.prefix_kind() {
        Some(WindowsPrefix::UNC(_, sh)) | Some(WindowsPrefix::VerbatimUNC(_, sh)) => !sh.is_empty(),
        Some(WindowsPrefix::Verbatim(x)) => !x.is_empty(),
        Some(WindowsPrefix::VerbatimDisk(_)) => { let l = p.components().prefix().unwrap().len(); b.len() == l || b[l] == b'\\' }
        Some(_) => true,
        None => !(b.len() >= 2 && is_sep(b[0]) && is_sep(b[1])),
    }
}
fn main() {
    let prefixes: Vec<&[u8]> = vec![b"", b"C:", b"c:", br"\\?\C:", br"\\?\pics", br"\\?\UNC\s\h", br"\\?\UNC\s", br"\\.\dev", br"\\s\h", br"\\s", b"//?/C:", b"//s/h", br"\\?\", br"\\?\UNC\", br"\\.\", br"\\?\UNC", b"//?/UNC/s/h", br"\\?/C:", b"//./dev", br"\\?\c:"];
    let tails = gen(b"\\/.a", 5);
    let mut inputs: Vec<Vec<u8>> = Vec::new();
    for p in &prefixes { for t in &tails { let mut v = p.to_vec(); v.extend_from_slice(t); inputs.push(v); } }
    inputs.extend(gen(b"\\/.a", 7));
    inputs.sort(); inputs.dedup();
    println!("inputs {}", inputs.len());
    for inp in &inputs {
        let fwd = wc(inp);
        let n = fwd.len();
        let back: Vec<_> = { let mut v: Vec<_> = WindowsPath::new(inp).components().rev().collect(); v.reverse(); v };
        if fwd != back { rep(&format!("C03 rev {:?}: {:?} vs {:?}", s(inp), fwd, back)); continue; }
        if n <= 7 { for mask in 0u32..(1 << (n + 1)) {
            let mut a = WindowsPath::new(inp).components();
            let (mut lo, mut hi) = (0usize, n);
            for i in 0..=n {
                let front = mask >> i & 1 == 0;
                let x = if front { a.next() } else { a.next_back() };
                let y = if lo < hi { if front { lo += 1; Some(fwd[lo-1]) } else { hi -= 1; Some(fwd[hi]) } } else { None };
                let rem: Vec<_> = a.clone().collect();
                if x != y || x.map(|c| c.as_bytes().to_vec()) != y.map(|c| c.as_bytes().to_vec()) || rem != fwd[lo..hi].to_vec() { rep(&format!("C03 mix {:?} mask {:b} step {}: {:?} vs {:?}; rem {:?}", s(inp), mask, i, x, y, rem)); break; }
            }
        } }
        let p = WindowsPath::new(inp);
        let comps = wc(inp);
        let expect_none = match comps.last() { None => true, Some(WindowsComponent::RootDir) | Some(WindowsComponent::Prefix(_)) => true, _ => false };
        match p.parent() {
            None => if !expect_none { rep(&format!("C09 parent-none {:?}", s(inp))); },
            Some(q) => {
                if expect_none { rep(&format!("C09 parent-some {:?} -> {:?}", s(inp), s(q.as_bytes()))); }
                else {
                    if !inp.starts_with(q.as_bytes()) { rep(&format!("C09 parent-notprefix {:?}", s(inp))); }
                    if wc(q.as_bytes()) != comps[..comps.len()-1].to_vec() { rep(&format!("C09 parent-comps {:?} -> {:?}: {:?}", s(inp), s(q.as_bytes()), wc(q.as_bytes()))); }
                }
            }
        }
    }
    let small: Vec<Vec<u8>> = { let t = gen(b"\\/.a", 3); let mut v = Vec::new(); for p in &prefixes { for x in &t { let mut w = p.to_vec(); w.extend_from_slice(x); v.push(w); } } v.extend(gen(b"\\/.a", 4)); v.sort(); v.dedup(); v };
    println!("small {}", small.len());
    for a in &small { for b in &small {
        let (pa, pb) = (WindowsPath::new(a), WindowsPath::new(b));
        let eq = pa == pb; let ceq = wc(a) == wc(b);
        if eq != ceq { rep(&format!("C05 eq-vs-comps {:?} {:?}", s(a), s(b))); }
        if (pa.cmp(pb) == std::cmp::Ordering::Equal) != eq { rep(&format!("C05 cmp-eq {:?} {:?}", s(a), s(b))); }
        if pa.cmp(pb) != wc(a).cmp(&wc(b)) { rep(&format!("C05 cmp-lex {:?} {:?}", s(a), s(b))); }
        if eq && h(pa) != h(pb) { rep(&format!("C05 hash {:?} {:?}: {:?} {:?}", s(a), s(b), h(pa), h(pb))); }
        if !wf(a) || !wf(b) { continue; }
        let sw = pa.starts_with(pb);
        let exp = wc(a).starts_with(&wc(b));
        if sw != exp { rep(&format!("C10 starts_with {:?} {:?}: {} exp {}", s(a), s(b), sw, exp)); }
        let ew = pa.ends_with(pb);
        let exp = wc(a).ends_with(&wc(b));
        if ew != exp { rep(&format!("C10 ends_with {:?} {:?}: {} exp {}", s(a), s(b), ew, exp)); }
        match pa.strip_prefix(pb) { Ok(r) => { if !sw { rep(&format!("C10 strip-ok-but-not-sw {:?} {:?}", s(a), s(b))); }
                let j = pb.join(r);
                if j != *pa { rep(&format!("C10 strip-join {:?} {:?}: r={:?} j={:?}", s(a), s(b), s(r.as_bytes()), s(j.as_bytes()))); } }
            Err(_) => if sw { rep(&format!("C10 strip-err-but-sw {:?} {:?}", s(a), s(b))); } }
        // join then starts_with / strip
        if !pb.has_root() && !pb.components().has_prefix() && !pa.components().has_any_verbatim_prefix() {
            let j = pa.join(pb);
            if !j.starts_with(pa) { rep(&format!("C10 join-sw {:?} {:?} -> {:?}", s(a), s(b), s(j.as_bytes()))); }
            else { let r = j.strip_prefix(pa).unwrap(); let mut e = wc(b); if !wc(a).is_empty() && e.first() == Some(&WindowsComponent::CurDir) { e.remove(0); }
                if wc(r.as_bytes()) != e { rep(&format!("C10 join-strip {:?} {:?} -> {:?}: r={:?}", s(a), s(b), s(j.as_bytes()), s(r.as_bytes()))); } }
        }
    } }
    CNT.with(|c| for (k,v) in c.borrow().iter() { println!("COUNT {} {}", k, v); });
}
