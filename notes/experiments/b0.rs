use typed_path::*;
use std::ffi::OsStr; use std::os::unix::ffi::OsStrExt;
use std::path::{Path as SPath, PathBuf as SPathBuf};
use std::collections::HashMap; use std::cell::RefCell;
thread_local!{ static CNT: RefCell<HashMap<String,usize>> = RefCell::new(HashMap::new()); }
fn rep(m: &str) { let k: String = m.split(' ').take(2).collect::<Vec<_>>().join(" "); CNT.with(|c| { let mut c = c.borrow_mut(); let e = c.entry(k).or_insert(0); *e += 1; if *e <= 10 { println!("{}", m); } }); }
fn s(b: &[u8]) -> String { String::from_utf8_lossy(b).into_owned() }
fn gen(alpha: &[u8], maxlen: usize) -> Vec<Vec<u8>> {
    let mut out = vec![vec![]]; let mut cur = vec![vec![]];
    for _ in 0..maxlen { let mut next = Vec::new(); for p in &cur { for &a in alpha { let mut q: Vec<u8> = p.clone(); q.push(a); next.push(q); } } out.extend(next.iter().cloned()); cur = next; }
    out
}
fn sp(b: &[u8]) -> &SPath { SPath::new(OsStr::from_bytes(b)) }
fn ceq(t: &UnixPathBuf, d: &SPathBuf) -> bool { UnixPath::new(t.as_bytes()) == UnixPath::new(d.as_os_str().as_bytes()) }
fn main() {
    let small = gen(b"/.a", 6); let exts = gen(b".a", 3);
    for p in &small { for q in &exts {
        let mut tb = UnixPathBuf::from(p.as_slice()); let mut db = SPathBuf::from(OsStr::from_bytes(p));
        let r1 = tb.set_extension(q); let r2 = db.set_extension(OsStr::from_bytes(q));
        if r1 != r2 || tb.as_bytes() != db.as_os_str().as_bytes() { rep(&format!("C13 set_extension {:?} {:?}: {:?} {} vs {:?} {}", s(p), s(q), s(tb.as_bytes()), r1, db, r2)); }
    } }
    // histories
    let args = gen(b"/.a", 3);
    let mut seed: u64 = 12345;
    let mut rnd = move || { seed ^= seed << 13; seed ^= seed >> 7; seed ^= seed << 17; seed };
    for _ in 0..300000 {
        let start = &small[(rnd() % small.len() as u64) as usize];
        let mut tb = UnixPathBuf::from(start.as_slice()); let mut db = SPathBuf::from(OsStr::from_bytes(start));
        let mut hist = vec![format!("start {:?}", s(start))];
        for _ in 0..6 {
            let a = &args[(rnd() % args.len() as u64) as usize];
            match rnd() % 6 {
                0 => { tb.push(a); db.push(sp(a)); hist.push(format!("push {:?}", s(a))); if !a.is_empty() && tb.as_bytes() != db.as_os_str().as_bytes() { rep(&format!("C07 push-bytes {:?} -> {:?} vs {:?}", hist, s(tb.as_bytes()), db)); } }
                1 => { let r1 = tb.pop(); let r2 = db.pop(); hist.push("pop".into()); if r1 != r2 { rep(&format!("C07 pop-bool {:?}", hist)); } }
                2 => { tb.set_file_name(a); db.set_file_name(OsStr::from_bytes(a)); hist.push(format!("set_file_name {:?}", s(a))); }
                3 => { tb.clear(); db.clear(); hist.push("clear".into()); }
                4 => { let b = &args[(rnd() % args.len() as u64) as usize]; tb.extend([a, b]); db.extend([sp(a), sp(b)]); hist.push(format!("extend {:?} {:?}", s(a), s(b))); }
                _ => { if a.contains(&b'/') { continue; } let r1 = tb.set_extension(a); let r2 = db.set_extension(OsStr::from_bytes(a)); hist.push(format!("set_ext {:?}", s(a))); if r1 != r2 { rep(&format!("C07 setext-bool {:?}", hist)); } }
            }
            if !ceq(&tb, &db) { rep(&format!("C07 comp-eq {:?} -> {:?} vs {:?}", hist, s(tb.as_bytes()), db)); break; }
        }
    }
    CNT.with(|c| for (k,v) in c.borrow().iter() { println!("COUNT {} {}", k, v); });
    println!("done");
}
