use typed_path::*;
use std::io::Write;
fn hx(b: &[u8]) -> String { if b.is_empty() { "-".into() } else { b.iter().map(|x| format!("{:02x}", x)).collect() } }
fn gen(alpha: &[u8], maxlen: usize) -> Vec<Vec<u8>> {
    let mut out = vec![vec![]]; let mut cur = vec![vec![]];
    for _ in 0..maxlen { let mut next = Vec::new(); for p in &cur { for &a in alpha { let mut q: Vec<u8> = p.clone(); q.push(a); next.push(q); } } out.extend(next.iter().cloned()); cur = next; }
    out
}
fn pk(p: WindowsPrefix) -> String { match p {
    WindowsPrefix::Verbatim(x) => format!("V({})", hx(x)), WindowsPrefix::VerbatimUNC(a, b) => format!("VU({},{})", hx(a), hx(b)),
    WindowsPrefix::VerbatimDisk(d) => format!("VD({:02x})", d), WindowsPrefix::DeviceNS(x) => format!("DN({})", hx(x)),
    WindowsPrefix::UNC(a, b) => format!("U({},{})", hx(a), hx(b)), WindowsPrefix::Disk(d) => format!("D({:02x})", d) } }
fn main() {
    let mut ins = gen(b"\\/?.UNC:ca\xe9", 5);
    let seeds: Vec<&[u8]> = vec![b"C:", b"c:", br"\\?\C:", br"\\?\c:", b"//?/C:", br"\\?/C:", br"\\?\pics", br"\\?\", br"\\?\UNC\s\h", br"\\?\UNC\s", br"\\?\UNC\", br"\\?\UNC", b"//?/UNC/s/h", br"\\.\dev", b"//./dev", br"\\.\", br"\\s\h", b"//s/h", br"\\s", br"\\?\UNC/s\h", br"\\?\UNC\s/h\x"];
    for s in &seeds { for t in gen(b"\\/.a", 5) { let mut v = s.to_vec(); v.extend(t); ins.push(v); } }
    let out = std::io::stdout(); let mut out = std::io::BufWriter::new(out.lock());
    for b in &ins {
        let p = WindowsPath::new(b); let cs = p.components();
        let comps: Vec<String> = p.components().map(|c| match c { WindowsComponent::Prefix(p) => format!("P[{}|{}]", pk(p.kind()), p.len()), WindowsComponent::RootDir => "R".into(), WindowsComponent::CurDir => ".".into(), WindowsComponent::ParentDir => "..".into(), WindowsComponent::Normal(n) => format!("N{}", hx(n)) }).collect();
        writeln!(out, "{} {} root={} abs={} phys={} impl={} anyverb={}", hx(b), comps.join(","), p.has_root() as u8, p.is_absolute() as u8, cs.has_physical_root() as u8, cs.has_implicit_root() as u8, cs.has_any_verbatim_prefix() as u8).unwrap();
    }
}
