import sys
BS, FS = 0x5c, 0x2f
def any_sep(x): return x in (BS, FS)
def hx(b): return '-' if len(b) == 0 else b.hex()
def alpha(x): return (0x41 <= x <= 0x5a) or (0x61 <= x <= 0x7a)
def upper(x): return x - 32 if 0x61 <= x <= 0x7a else x
def field(b, sep):
    i = 0
    while i < len(b) and not sep(b[i]): i += 1
    return b[:i], b[i:]
def server_share(b, sep):
    """server [sep [share]] -> (server, share, consumed) or None when server is empty"""
    server, after = field(b, sep)
    if not server: return None
    n = len(server); share = b''
    if after and sep(after[0]):
        n += 1
        share, _ = field(after[1:], sep); n += len(share)
    return server, share, n
def prefix(b, sep):
    if len(b) >= 2 and alpha(b[0]) and b[1] == 0x3a: return ('D(%02x)' % upper(b[0]), 2)
    if not (len(b) >= 2 and any_sep(b[0]) and any_sep(b[1])): return None
    r = b[2:]
    if len(r) >= 2 and r[0] == 0x3f and any_sep(r[1]):          # \\?\  (either slash)
        v = r[2:]
        if v[:3] == b'UNC' and len(v) > 3 and sep(v[3]):
            ss = server_share(v[4:], sep)
            if ss: return ('VU(%s,%s)' % (hx(ss[0]), hx(ss[1])), 8 + ss[2])
        if len(v) >= 2 and alpha(v[0]) and v[1] == 0x3a: return ('VD(%02x)' % upper(v[0]), 6)
        name, after = field(v, sep)
        if name: return ('V(%s)' % hx(name), 4 + len(name))
        if after: return ('V(-)', 4)                             # blank verbatim needs a following separator
    if len(r) >= 2 and r[0] == 0x2e and any_sep(r[1]):           # \\.\
        dev, _ = field(r[2:], any_sep)
        if dev: return ('DN(%s)' % hx(dev), 4 + len(dev))
    ss = server_share(r, any_sep)
    if ss: return ('U(%s,%s)' % (hx(ss[0]), hx(ss[1])), 2 + ss[2])
    return None
def decomp(b):
    verb = b[:4] == b'\\\\?\\'
    sep = (lambda x: x == BS) if verb else any_sep
    p = prefix(b, sep)
    plen = p[1] if p else 0
    rest = b[plen:]
    root = len(rest) > 0 and sep(rest[0])
    segs = []; cur = b''
    for x in rest:
        if sep(x): segs.append(cur); cur = b''
        else: cur += bytes([x])
    segs.append(cur)
    comps = []
    if p: comps.append('P[%s|%d]' % p)
    if root: comps.append('R')
    for i, s in enumerate(segs):
        if s == b'': continue
        if s == b'.':
            if verb or i == 0: comps.append('.')
            continue
        comps.append('..' if s == b'..' else 'N' + hx(s))
    kind = p[0][:2] if p else None
    has_prefix = p is not None
    disk = kind in ('D(', 'VD')
    has_root = root or (has_prefix and not disk)
    impl_root = has_prefix and kind != 'D('
    anyverb = has_prefix and p[0][0] == 'V'
    return '%s %s root=%d abs=%d phys=%d impl=%d anyverb=%d' % (hx(b), ','.join(comps), has_root, has_prefix and root, root, impl_root, anyverb)
bad = 0; n = 0
for line in open('/tmp/exp2/impl.txt'):
    line = line.rstrip('\n'); h = line.split(' ')[0]
    b = b'' if h == '-' else bytes.fromhex(h)
    s = decomp(b); n += 1
    if s != line:
        bad += 1
        if bad <= 15: print('IMPL', line); print('SPEC', s)
print('lines', n, 'bad', bad)
