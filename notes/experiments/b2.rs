use typed_path::*;
use std::collections::HashMap; use std::cell::RefCell;
thread_local!{ static CNT: RefCell<HashMap<String,usize>> = RefCell::new(HashMap::new()); }
fn rep(m: &str) { let k: String = m.split(' ').take(2).collect::<Vec<_>>().join(" "); CNT.with(|c| { let mut c = c.borrow_mut(); let e = c.entry(k).or_insert(0); *e += 1; if *e <= 10 { println!("{}", m); } }); }
fn s(b: &[u8]) -> String { String::from_utf8_lossy(b).into_owned() }
fn gen(alpha: &[u8], maxlen: usize) -> Vec<Vec<u8>> {
    let mut out = vec![vec![]]; let mut cur = vec![vec![]];
    for _ in 0..maxlen { let mut next = Vec::new(); for p in &cur { for &a in alpha { let mut q: Vec<u8> = p.clone(); q.push(a); next.push(q); } } out.extend(next.iter().cloned()); cur = next; }
    out
}
fn wc(b: &[u8]) -> Vec<WindowsComponent> { WindowsPath::new(b).components().collect() }
fn uc(b: &[u8]) -> Vec<UnixComponent> { UnixPath::new(b).components().collect() }
fn is_sep(b: u8) -> bool { b == b'\\' || b == b'/' }
// well-formed windows: valid names, prefix complete (share non-empty for UNC kinds), no leading double-sep without prefix
fn wf(b: &[u8]) -> bool {
    let p = WindowsPath::new(b);
    if !p.is_valid() { return false; }
    match p.components().prefix_kind() {
        Some(WindowsPrefix::UNC(_, sh)) | Some(WindowsPrefix::VerbatimUNC(_, sh)) => !sh.is_empty(),
        Some(WindowsPrefix::Verbatim(x)) => !x.is_empty(),
        Some(WindowsPrefix::VerbatimDisk(_)) => { let l = p.components().prefix().unwrap().len(); b.len() == l || b[l] == b'\\' }
        Some(_) => true,
        None => true,
    }
}
fn norm_spec<'a>(c: &[WindowsComponent<'a>]) -> Vec<WindowsComponent<'a>> {
    let mut st: Vec<WindowsComponent> = vec![];
    for x in c { match x { WindowsComponent::CurDir => {}, WindowsComponent::ParentDir => { if let Some(WindowsComponent::Normal(_)) = st.last() { st.pop(); } }, _ => st.push(*x) } }
    st
}
fn main() {
    let prefixes: Vec<&[u8]> = vec![b"", b"C:", b"c:", br"\\?\C:", br"\\?\pics", br"\\?\UNC\s\h", br"\\.\dev", br"\\s\h", b"//?/C:", b"//s/h", b"//./dev", br"\\s", br"\\?\"];
    let tails = gen(b"\\/.a", 4);
    let mut all: Vec<Vec<u8>> = Vec::new();
    for p in &prefixes { for t in &tails { let mut v = p.to_vec(); v.extend_from_slice(t); all.push(v); } }
    all.sort(); all.dedup();
    let bases: Vec<&Vec<u8>> = all.iter().filter(|b| wf(b)).collect();
    println!("all {} wf bases {}", all.len(), bases.len());
    let mut args: Vec<Vec<u8>> = gen(b"\\/.a", 4);
    for x in [&b"C:"[..], b"C:a", br"C:\a", br"\\s\h\a", b"a|", b"a\0", br"\\?\C:\a", b"a:b"] { args.push(x.to_vec()); }
    // C04 / C08
    for a in &bases { for b in &args {
        if a.len() == 2 && is_sep(a[0]) && is_sep(a[1]) { continue; }
        let pa = WindowsPath::new(a); let pb = WindowsPath::new(b);
        let j = pa.join(pb);
        let ac = wc(a); let bc = wc(b);
        // C04
        let mut exp: Result<(), CheckedPathError> = Ok(()); let mut cnt = 0i64;
        for c in &bc { match c {
            WindowsComponent::Prefix(_) => { exp = Err(CheckedPathError::UnexpectedPrefix); break; }
            WindowsComponent::RootDir => { exp = Err(CheckedPathError::UnexpectedRoot); break; }
            WindowsComponent::ParentDir => { if cnt == 0 { exp = Err(CheckedPathError::PathTraversalAttack); break; } cnt -= 1; }
            WindowsComponent::Normal(n) => { if n.iter().any(|x| b"\\/:?*\"><|\0".contains(x)) { exp = Err(CheckedPathError::InvalidFilename); break; } cnt += 1; }
            _ => {} } }
        let got = pa.join_checked(pb);
        match (&got, &exp) {
            (Ok(r), Ok(())) => {
                if r.as_bytes() != j.as_bytes() { rep(&format!("C04 checked!=unchecked {:?} {:?}", s(a), s(b))); }
                let rc = wc(r.as_bytes());
                if !rc.starts_with(&ac) { rep(&format!("C04 base-not-kept {:?} + {:?} = {:?}: {:?}", s(a), s(b), s(r.as_bytes()), rc)); }
                else { // added comps never climb
                    let mut d = 0i64; let mut ok = true; let mut tailc = &rc[ac.len()..]; if ac.len() == 1 && !matches!(ac[0], WindowsComponent::Prefix(p) if matches!(p.kind(), WindowsPrefix::Disk(_))) && matches!(ac[0], WindowsComponent::Prefix(_)) && tailc.first() == Some(&WindowsComponent::RootDir) { tailc = &tailc[1..]; } for c in tailc { match c { WindowsComponent::ParentDir => { d -= 1; if d < 0 { ok = false; } } WindowsComponent::Normal(_) => d += 1, WindowsComponent::CurDir => {}, _ => ok = false } }
                    if !ok { rep(&format!("C04 climbs {:?} + {:?} = {:?}", s(a), s(b), s(r.as_bytes()))); } }
            }
            (Err(e), Err(x)) => if e != x { rep(&format!("C04 wrong-err {:?} {:?}: {:?} vs {:?}", s(a), s(b), e, x)); },
            _ => rep(&format!("C04 outcome {:?} {:?}: {:?} vs {:?}", s(a), s(b), got.as_ref().map(|x| s(x.as_bytes())), exp)),
        }
        // C08 (b must be well-formed too)
        if wf(b) {
            let b_prefix = pb.components().has_prefix(); let b_root = pb.has_root();
            let a_cs = pa.components(); let a_pk = a_cs.prefix_kind();
            let a_verb = matches!(a_pk, Some(WindowsPrefix::Verbatim(_) | WindowsPrefix::VerbatimUNC(..) | WindowsPrefix::VerbatimDisk(_)));
            let plen = pa.components().prefix().map(|p| p.len()).unwrap_or(0);
            let bare = a.len() == 2 && matches!(a_pk, Some(WindowsPrefix::Disk(_)));
            let expb: Option<Vec<u8>> = if b.is_empty() { Some(a.to_vec()) } else if b_prefix { Some(b.clone()) } else if a_verb { None }
                else if b_root { let mut v = a[..plen].to_vec(); v.extend_from_slice(b); Some(v) }
                else { let mut v = a.to_vec(); if !(a.is_empty() || is_sep(*a.last().unwrap()) || bare) { v.push(b'\\'); } v.extend_from_slice(b); Some(v) };
            match expb { Some(v) => { if v != j.as_bytes() { rep(&format!("C08 bytes {:?} + {:?} = {:?} exp {:?}", s(a), s(b), s(j.as_bytes()), s(&v))); }
                    // components: a's comps followed by b's (when b relative no prefix)
                    if !b.is_empty() && !b_prefix && !b_root { let mut e = ac.clone(); let mut bc2 = bc.clone(); if !ac.is_empty() && bc2.first() == Some(&WindowsComponent::CurDir) { bc2.remove(0); } if ac.len() == 1 && matches!(ac[0], WindowsComponent::Prefix(p) if !matches!(p.kind(), WindowsPrefix::Disk(_))) && !bc2.is_empty() { e.push(WindowsComponent::RootDir); } e.extend(bc2); if wc(&v) != e { rep(&format!("C08 spec-comps {:?} + {:?}: {:?} vs {:?}", s(a), s(b), wc(&v), e)); } } }
                None => { // verbatim: comps = norm(a-prefix/root... ) 
                    let mut e: Vec<WindowsComponent> = if b_root { ac[..1].to_vec() } else { ac.clone() }; if e.len() == 1 && !b_root && bc.iter().any(|c| matches!(c, WindowsComponent::Normal(_))) { e.push(WindowsComponent::RootDir); }
                    for c in &bc { match c { WindowsComponent::CurDir => {}, WindowsComponent::ParentDir => { if let Some(WindowsComponent::Normal(_)) = e.last() { e.pop(); } } _ => e.push(*c) } }
                    if wc(j.as_bytes()) != e { rep(&format!("C08 verbatim {:?} + {:?} = {:?} exp {:?}", s(a), s(b), s(j.as_bytes()), e)); } } }
        }
    } }
    // C11 normalize, C12, C13 over wf bases
    for a in &bases {
        let pa = WindowsPath::new(a); let ac = wc(a);
        let n = pa.normalize(); let nc = wc(n.as_bytes());
        if nc != norm_spec(&ac) { rep(&format!("C11 comps {:?} -> {:?}: {:?} vs {:?}", s(a), s(n.as_bytes()), nc, norm_spec(&ac))); }
        if n.normalize().as_bytes() != n.as_bytes() { rep(&format!("C11 idem {:?} -> {:?} -> {:?}", s(a), s(n.as_bytes()), s(n.normalize().as_bytes()))); }
        if n.has_root() != pa.has_root() || n.is_absolute() != pa.is_absolute() { rep(&format!("C11 root/abs {:?} -> {:?}", s(a), s(n.as_bytes()))); }
        // separators only primary between comps: after prefix, no '/' 
        let plen = n.components().prefix().map(|p| p.len()).unwrap_or(0);
        if n.as_bytes()[plen..].contains(&b'/') { rep(&format!("C11 altsep {:?} -> {:?}", s(a), s(n.as_bytes()))); }
        // C12
        let fname = match ac.last() { Some(WindowsComponent::Normal(x)) => Some(*x), _ => None };
        if pa.file_name() != fname { rep(&format!("C12 file_name {:?}", s(a))); }
        for nm in [&b"n"[..], b"n.x", b".n", b"n."] {
            let w = pa.with_file_name(nm);
            if w.file_name() != Some(nm) { rep(&format!("C12 wfn-name {:?} {:?} -> {:?}", s(a), s(nm), s(w.as_bytes()))); }
            if fname.is_some() { if w.parent().map(|x| wc(x.as_bytes())) != pa.parent().map(|x| wc(x.as_bytes())) { rep(&format!("C12 wfn-parent {:?} {:?} -> {:?}", s(a), s(nm), s(w.as_bytes()))); } }
            else if w.as_bytes() != pa.join(nm).as_bytes() { rep(&format!("C12 wfn-join {:?} {:?} -> {:?}", s(a), s(nm), s(w.as_bytes()))); }
        }
        // C13 windows
        for e in [&b""[..], b"x", b"yy"] {
            let mut b = pa.to_path_buf(); let r = b.set_extension(e);
            if fname.is_none() { if r || b.as_bytes() != a.as_slice() { rep(&format!("C13 nofile {:?}", s(a))); } }
            else { let stem = pa.file_stem().unwrap(); let mut exp = stem.to_vec(); if !e.is_empty() { exp.push(b'.'); exp.extend_from_slice(e); }
                if !r || b.file_name() != Some(&exp[..]) || b.parent().map(|x| wc(x.as_bytes())) != pa.parent().map(|x| wc(x.as_bytes())) { rep(&format!("C13 win {:?} {:?} -> {:?}", s(a), s(e), s(b.as_bytes()))); } }
        }
    }
    CNT.with(|c| for (k,v) in c.borrow().iter() { println!("COUNT {} {}", k, v); });
}
