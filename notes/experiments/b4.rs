use typed_path::*;
use std::collections::HashMap; use std::cell::RefCell;
thread_local!{ static CNT: RefCell<HashMap<String,usize>> = RefCell::new(HashMap::new()); }
fn rep(m: &str) { let k: String = m.split(' ').take(2).collect::<Vec<_>>().join(" "); CNT.with(|c| { let mut c = c.borrow_mut(); let e = c.entry(k).or_insert(0); *e += 1; if *e <= 10 { println!("{}", m); } }); }
fn gens(alpha: &[&str], maxlen: usize) -> Vec<String> {
    let mut out = vec![String::new()]; let mut cur = vec![String::new()];
    for _ in 0..maxlen { let mut next = Vec::new(); for p in &cur { for a in alpha { let mut q = p.clone(); q.push_str(a); next.push(q); } } out.extend(next.iter().cloned()); cur = next; }
    out
}
macro_rules! both { ($U:ty, $B:ty, $UB:ty, $BB:ty, $name:expr, $ins:expr, $small:expr) => {
    for st in $ins {
        let r = std::panic::catch_unwind(|| {
            let u = <$U>::new(st); let b = <$B>::new(st.as_bytes());
            macro_rules! cmp { ($n:expr, $x:expr, $y:expr) => { if $x != $y { rep(&format!("C14 {}-{} {:?}", $name, $n, st)); } } }
            cmp!("parent", u.parent().map(|x| x.as_str().as_bytes()), b.parent().map(|x| x.as_bytes()));
            cmp!("file_name", u.file_name().map(|x| x.as_bytes()), b.file_name());
            cmp!("file_stem", u.file_stem().map(|x| x.as_bytes()), b.file_stem());
            cmp!("extension", u.extension().map(|x| x.as_bytes()), b.extension());
            cmp!("has_root", u.has_root(), b.has_root()); cmp!("is_abs", u.is_absolute(), b.is_absolute()); cmp!("valid", u.is_valid(), b.is_valid());
            cmp!("normalize", u.normalize().as_str().as_bytes(), b.normalize().as_bytes());
            cmp!("comps", u.components().map(|c| c.as_str().as_bytes().to_vec()).collect::<Vec<_>>(), b.components().map(|c| c.as_bytes().to_vec()).collect::<Vec<_>>());
            cmp!("rcomps", u.components().rev().map(|c| c.as_str().as_bytes().to_vec()).collect::<Vec<_>>(), b.components().rev().map(|c| c.as_bytes().to_vec()).collect::<Vec<_>>());
            cmp!("anc", u.ancestors().map(|c| c.as_str().as_bytes().to_vec()).collect::<Vec<_>>(), b.ancestors().map(|c| c.as_bytes().to_vec()).collect::<Vec<_>>());
            let mut it = u.components(); let mut i = 0; loop { let x = if i % 2 == 0 { it.next() } else { it.next_back() }; let rem = it.as_str(); assert!(std::str::from_utf8(rem.as_bytes()).is_ok()); let _ = rem.chars().count(); if x.is_none() { break; } i += 1; }
            { let mut ub: $UB = u.to_path_buf(); let mut bb: $BB = b.to_path_buf(); let r1 = ub.pop(); let r2 = bb.pop(); cmp!("pop", (r1, ub.as_str().as_bytes()), (r2, bb.as_bytes())); }
            for e in ["", "x", "é", "日.é"] {
                let mut ub: $UB = u.to_path_buf(); let mut bb: $BB = b.to_path_buf(); let r1 = ub.set_extension(e); let r2 = bb.set_extension(e); cmp!("set_ext", (r1, ub.as_str().as_bytes()), (r2, bb.as_bytes()));
                let mut ub: $UB = u.to_path_buf(); let mut bb: $BB = b.to_path_buf(); ub.set_file_name(e); bb.set_file_name(e); cmp!("set_fn", ub.as_str().as_bytes(), bb.as_bytes());
            }
            for q in $small {
                let mut ub: $UB = u.to_path_buf(); let mut bb: $BB = b.to_path_buf(); ub.push(q.as_str()); bb.push(q.as_bytes()); cmp!("push", ub.as_str().as_bytes(), bb.as_bytes());
                let mut ub: $UB = u.to_path_buf(); let mut bb: $BB = b.to_path_buf(); let r1 = ub.push_checked(q.as_str()); let r2 = bb.push_checked(q.as_bytes()); cmp!("pushc", (r1, ub.as_str().as_bytes()), (r2, bb.as_bytes()));
                cmp!("sw", u.starts_with(q.as_str()), b.starts_with(q.as_bytes())); cmp!("ew", u.ends_with(q.as_str()), b.ends_with(q.as_bytes()));
                cmp!("strip", u.strip_prefix(q.as_str()).ok().map(|x| x.as_str().as_bytes()), b.strip_prefix(q.as_bytes()).ok().map(|x| x.as_bytes()));
                cmp!("eq", u.eq(<$U>::new(q)), b.eq(<$B>::new(q.as_bytes()))); cmp!("cmp", u.cmp(<$U>::new(q)), b.cmp(<$B>::new(q.as_bytes())));
            }
        });
        if r.is_err() { rep(&format!("C14 {}-PANIC {:?}", $name, st)); }
    }
} }
fn main() {
    std::panic::set_hook(Box::new(|_| {}));
    let alpha = ["/", "\\", ".", ":", "a", "é", "日", "😀", "?", "C"];
    let ins = gens(&alpha, 4);
    let small = gens(&["/", "\\", ".", "é", ":", "C"], 2);
    println!("ins {} small {}", ins.len(), small.len());
    both!(Utf8UnixPath, UnixPath, Utf8UnixPathBuf, UnixPathBuf, "unix", &ins, &small);
    both!(Utf8WindowsPath, WindowsPath, Utf8WindowsPathBuf, WindowsPathBuf, "win", &ins, &small);
    let pre = [r"\\?\é\", r"\\?\UNC\é\日\", r"\\é\日\", r"\\.\é\", "C:", r"\\?\C:\", r"\\?\UNC\é", r"\\é"];
    let mut ins2 = Vec::new(); for p in pre { for t in gens(&["/", "\\", ".", "é", "a"], 3) { ins2.push(format!("{}{}", p, t)); } }
    both!(Utf8WindowsPath, WindowsPath, Utf8WindowsPathBuf, WindowsPathBuf, "winp", &ins2, &small);
    // derive
    for st in ins.iter().chain(ins2.iter()) {
        let t = TypedPath::derive(st.as_bytes());
        let exp_win = st.as_bytes().first() == Some(&b'\\') || WindowsPath::new(st.as_bytes()).components().has_prefix();
        if t.is_windows() != exp_win { rep(&format!("C15 derive {:?}", st)); }
        let t8 = Utf8TypedPath::derive(st);
        if t8.is_windows() != exp_win { rep(&format!("C15 derive8 {:?}", st)); }
        if TypedPathBuf::from(st.as_bytes()).is_windows() != exp_win || TypedPathBuf::from(st.clone()).is_windows() != exp_win || TypedPathBuf::from(st.clone().into_bytes()).is_windows() != exp_win { rep(&format!("C15 derivebuf {:?}", st)); }
    }
    CNT.with(|c| for (k,v) in c.borrow().iter() { println!("COUNT {} {}", k, v); });
}
